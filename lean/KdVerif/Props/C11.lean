import KdVerif.Gen.Flags
import KdVerif.Proofs.Flags
/-
  C11 — flag words and packed fields decode to exactly the names of the bits set; the ioctl split is
  the exact inverse of Darwin's `_IOC` packing.

  Subjects (all instantiated with the tables the translator reflects from the current source):
    * `Gen.Flags.sites`  – every `[m for m in <enum> if m.value & word]` of bsd/mach/perf/dyld
      (`to_vm_prot`, `to_ast_reasons`, `to_thread_state`, `to_sampler_action`, `to_kperf_ti_state`,
      `to_callstack_flags`, `to_rtld_flags`, `serialize_access_flags`, the inline comprehensions of
      recvfrom / chflags / fchflags / flock) with `CompSite.eval` as its meaning;
    * `openFlags`  – `serialize_open_flags`;   `statFlags` – `serialize_stat_flags`;
    * `splitIoctl' ` – the word split of `BscIoctl.__str__`.
  Reference: `Spec/Darwin.lean` (hand-written from Darwin's headers).
  All theorems are for every natural word `v` (no bound).
-/
namespace KdVerif
open Spec

/-- `serialize_open_flags(v)` -/
def openFlags (v : Nat) : List EnumMember :=
  serializeOpenFlags Gen.Flags.openAcc Gen.Flags.openAccElse Gen.Flags.openShown v

/-- `serialize_stat_flags(v)` -/
def statFlags (v : Nat) : List EnumMember :=
  serializeStatFlags Gen.Flags.statIter Gen.Flags.statTypeMask Gen.Flags.statFieldMask v

/-- `BscIoctl.__str__`'s split of the request word. -/
def splitIoctl' (w : Nat) : Except PyErr IoctlParts := splitIoctl Gen.Flags.iocParams Gen.Flags.iocLayout w

/-- The shown-flags loop of `serialize_open_flags` as a comprehension site over the open flags
    outside the access-mode field. -/
def openSite : CompSite :=
  ⟨"bsd.serialize_open_flags", Gen.Flags.openEnum.outside Darwin.O_ACCMODE, .cls, Gen.Flags.openShown, .none⟩

/-- The non-file-type branch of `serialize_stat_flags` as a comprehension site over the mode bits
    outside `S_IFMT`. -/
def statSite : CompSite :=
  ⟨"bsd.serialize_stat_flags", Gen.Flags.statEnum.outside Darwin.S_IFMT, Gen.Flags.statSrc,
   Gen.Flags.statIter.filter (EnumMember.outsideB Darwin.S_IFMT), .none⟩

/-- The enum classes of the property's families and their Darwin reference tables. -/
def familyRefs : List (EnumDef × Darwin.Table) := [
  (Gen.Enums.BscOpenFlags, Darwin.openFlags), (Gen.Enums.StatFlags, Darwin.statModes),
  (Gen.Enums.BscAccessFlags, Darwin.accessModes), (Gen.Enums.SocketMsgFlags, Darwin.msgFlags),
  (Gen.Enums.FlockOperation, Darwin.lockOps), (Gen.Enums.BscChangeableFlags, Darwin.fileFlags),
  (Gen.Enums.VmProtection, Darwin.vmProt), (Gen.Enums.AsynchronousSystemTrapsReason, Darwin.astReasons),
  (Gen.Enums.ThreadState, Darwin.threadState), (Gen.Enums.SamplerAction, Darwin.samplerActions),
  (Gen.Enums.KperfTiState, Darwin.kperfTiState), (Gen.Enums.CallstackFlag, Darwin.callstackFlags),
  (Gen.Enums.RtldFlag, Darwin.rtldFlags)]

/-- The flag families the property names that are decoded by a plain comprehension. -/
def requiredFamilies : List String :=
  ["SocketMsgFlags", "FlockOperation", "BscChangeableFlags", "BscAccessFlags", "VmProtection",
   "AsynchronousSystemTrapsReason", "ThreadState", "SamplerAction", "KperfTiState", "CallstackFlag", "RtldFlag"]

def matchesRefB (p : EnumDef × Darwin.Table) : Bool :=
  p.1.members.all fun m => match p.2.lookup m.name with
    | some v => m.value == (v : Int)
    | none => true

/-- A family that declares a zero member handles it by one of the two zero cases; a family
    without one has no zero case. -/
def zeroHandledB (s : CompSite) : Bool :=
  match s.enum.ofValue 0 with
  | some z => s.zero == .wordZero z || s.zero == .emptyResult z
  | none => s.zero == .none

namespace C11

set_option maxRecDepth 20000

/-! ### reflective facts about the generated tables -/

/-- Every shape of the current source was understood by the translator (nothing is modelled by a
    placeholder). -/
theorem translator_supported : Gen.Flags.unsupported = [] := by decide

theorem sites_okB : (Gen.Flags.sites.all CompSite.okB) = true := by decide
theorem openSite_okB : openSite.okB = true := by decide
theorem statSite_okB : statSite.okB = true := by decide

theorem sites_ok {s : CompSite} (h : s ∈ Gen.Flags.sites) : s.OK :=
  CompSite.okB_spec (List.all_eq_true.mp sites_okB s h)

/-- Every family the property names is decoded somewhere (the quantifier `∀ s ∈ sites` below is
    not vacuous for any of them), and open/stat flags are the classes the reference is about. -/
theorem families_covered :
    (∀ f ∈ requiredFamilies, ∃ s ∈ Gen.Flags.sites, s.enum.name = f) ∧
    Gen.Flags.openEnum.name = "BscOpenFlags" ∧ Gen.Flags.statEnum.name = "StatFlags" ∧
    (∀ s ∈ Gen.Flags.sites, ∃ p ∈ familyRefs, p.1.name = s.enum.name) := by decide

/-- Members of each flag family are single bits below 2^64 or zero; open flags are single bits
    outside the access-mode field or values of that field; mode members are single bits below the
    file-type field or one of Darwin's seven file types. -/
theorem singlebit_tables :
    (∀ s ∈ Gen.Flags.sites, ∀ m ∈ s.enum.members, m.value = 0 ∨ ∃ k, k < 64 ∧ m.IsBit k) ∧
    (∀ m ∈ Gen.Flags.openEnum.members,
        (0 ≤ m.value ∧ m.value ≤ 3) ∨ ∃ k, 2 ≤ k ∧ k < 64 ∧ m.IsBit k) ∧
    (∀ m ∈ Gen.Flags.statEnum.members,
        (m.name, m.value.toNat) ∈ Darwin.fileTypes ∨ ∃ k, k < 12 ∧ m.IsBit k) := by
  refine ⟨fun s hs => (sites_ok hs).memberBits, ?_, ?_⟩
  · have h : (Gen.Flags.openEnum.members.all fun m =>
        (decide (0 ≤ m.value) && decide (m.value ≤ 3)) ||
          ((List.range 64).any fun k => decide (2 ≤ k) && decide (m.value = ((2 ^ k : Nat) : Int)))) = true := by
      decide
    intro m hm
    have := List.all_eq_true.mp h m hm
    simp only [Bool.or_eq_true, Bool.and_eq_true, decide_eq_true_eq, List.any_eq_true, List.mem_range] at this
    rcases this with h | ⟨k, hk, h2, hv⟩
    · exact .inl h
    · exact .inr ⟨k, h2, hk, hv⟩
  · have h : (Gen.Flags.statEnum.members.all fun m =>
        decide ((m.name, m.value.toNat) ∈ Darwin.fileTypes) ||
          ((List.range 12).any fun k => decide (m.value = ((2 ^ k : Nat) : Int)))) = true := by
      decide
    intro m hm
    have := List.all_eq_true.mp h m hm
    simp only [Bool.or_eq_true, decide_eq_true_eq, List.any_eq_true, List.mem_range] at this
    rcases this with h | ⟨k, hk, hv⟩
    · exact .inl h
    · exact .inr ⟨k, hk, hv⟩

/-- The names carry Darwin's numeric values: every declared member of every family that is present
    in the reference table has the reference value; the masks used for the file-type field are
    Darwin's `S_IFMT`; the ioctl direction table maps Darwin's four directions to their names. -/
theorem values_match_darwin :
    (∀ p ∈ familyRefs, ∀ m ∈ p.1.members, ∀ val, p.2.lookup m.name = some val → m.value = (val : Int)) ∧
    Gen.Flags.S_IFMT = Darwin.S_IFMT ∧ Gen.Flags.statTypeMask = Darwin.S_IFMT ∧
    Gen.Flags.statFieldMask = Darwin.S_IFMT ∧
    (∀ d ∈ Darwin.directions, Gen.Flags.iocParams.lookup d.1 = some d.2) := by
  refine ⟨?_, by decide, by decide, by decide, by decide⟩
  have h : (familyRefs.all matchesRefB) = true := by decide
  intro p hp m hm val hv
  have := List.all_eq_true.mp (List.all_eq_true.mp h p hp) m hm
  rw [hv] at this
  exact beq_iff_eq.mp this

/-! ### the comprehension families: message flags, lock operations, file flags, VM protections,
    AST reasons, thread / sampler / callstack bits, dlopen modes, access modes -/

/-- Every name shown stands for a bit that is set in the word: a shown member with a non-zero value
    is the single bit `k` (`m.value = 2^k`) and bit `k` of `v` is set.  (Zero-valued members:
    `zero_cases`.) -/
theorem shown_sound : ∀ s ∈ Gen.Flags.sites, ∀ (v : Nat) (m : EnumMember), m ∈ s.eval v → m.value ≠ 0 →
    ∃ k, k < 64 ∧ m.IsBit k ∧ v.testBit k = true :=
  fun _ hs _ _ hm hnz => CompSite.sound (sites_ok hs) hm hnz

/-- Every set bit that has a declared name is shown under that name (`E(2^k)`, the first declared
    member with that value). -/
theorem shown_complete : ∀ s ∈ Gen.Flags.sites, ∀ (v k : Nat) (m : EnumMember),
    s.enum.ofValue ((2 ^ k : Nat) : Int) = some m → v.testBit k = true → m ∈ s.eval v :=
  fun _ hs _ _ _ hd hb => CompSite.complete (sites_ok hs) hd hb

/-- Only declared names are shown. -/
theorem shown_declared : ∀ s ∈ Gen.Flags.sites, ∀ (v : Nat) (m : EnumMember), m ∈ s.eval v →
    m ∈ s.enum.members := by
  intro s hs v m hm
  have ok := sites_ok hs
  rcases s.eval_sub v m hm with h | ⟨hz, _⟩ | ⟨hz, _⟩
  · exact ok.declared m (mem_flagsIn.mp h).1
  · exact (ok.zeroVal m (.inl hz)).2
  · exact (ok.zeroVal m (.inr hz)).2

/-- When a zero-valued member (AST_NONE, VM_PROT_NONE, F_OK) is shown: never by a site without a
    zero case; by an `if not flags` site exactly for the zero word; by the `if not result` site
    (access modes) exactly when no declared bit is set. -/
theorem zero_cases : ∀ s ∈ Gen.Flags.sites, ∀ (v : Nat) (m : EnumMember), m.value = 0 →
    (m ∈ s.eval v ↔ (s.zero = .wordZero m ∧ v = 0) ∨ (s.zero = .emptyResult m ∧ s.NoDeclaredBit v)) :=
  fun _ hs v m hz => CompSite.zero_iff (sites_ok hs) v m hz

/-- Which sites have which zero case: AST reasons and VM protections test the word, access modes test
    the result; every family that declares a zero member handles it, the others have no zero case. -/
theorem zero_members : ∀ s ∈ Gen.Flags.sites,
    (s.enum.name = "AsynchronousSystemTrapsReason" → s.zero = .wordZero ⟨"AST_NONE", 0⟩) ∧
    (s.enum.name = "VmProtection" → s.zero = .wordZero ⟨"VM_PROT_NONE", 0⟩) ∧
    (s.enum.name = "BscAccessFlags" → s.zero = .emptyResult ⟨"F_OK", 0⟩) ∧
    (match s.enum.ofValue 0 with
     | some z => s.zero = .wordZero z ∨ s.zero = .emptyResult z
     | none => s.zero = .none) := by
  have h : (Gen.Flags.sites.all fun s =>
      decide (s.enum.name = "AsynchronousSystemTrapsReason" → s.zero = .wordZero ⟨"AST_NONE", 0⟩) &&
      decide (s.enum.name = "VmProtection" → s.zero = .wordZero ⟨"VM_PROT_NONE", 0⟩) &&
      decide (s.enum.name = "BscAccessFlags" → s.zero = .emptyResult ⟨"F_OK", 0⟩) &&
      zeroHandledB s) = true := by decide
  intro s hs
  have := List.all_eq_true.mp h s hs
  simp only [Bool.and_eq_true, decide_eq_true_eq] at this
  obtain ⟨⟨⟨h1, h2⟩, h3⟩, h4⟩ := this
  refine ⟨h1, h2, h3, ?_⟩
  unfold zeroHandledB at h4
  cases hz : s.enum.ofValue 0 with
  | none => rw [hz] at h4; simpa using h4
  | some z => rw [hz] at h4; simpa using h4

/-- The zero word shows exactly the family's zero member if it declares one, and nothing otherwise. -/
theorem zero_word : ∀ s ∈ Gen.Flags.sites,
    s.eval 0 = (match s.enum.ofValue 0 with | some z => [z] | none => []) := by
  intro s hs
  have h := (zero_members s hs).2.2.2
  cases hz : s.enum.ofValue 0 with
  | none => rw [hz] at h; simp [CompSite.eval, h, flagsIn_zero]
  | some z =>
    rw [hz] at h
    rcases h with h | h <;> simp [CompSite.eval, h, flagsIn_zero]

/-- For a non-zero word the zero member of a word-tested family (AST_NONE, VM_PROT_NONE) is not shown. -/
theorem zero_member_only_for_zero_word : ∀ s ∈ Gen.Flags.sites, ∀ (v : Nat) (z : EnumMember),
    s.zero = .wordZero z → v ≠ 0 → z ∉ s.eval v := by
  intro s hs v z hz hv hm
  have ok := sites_ok hs
  have := (CompSite.zero_iff ok v z (ok.zeroVal z (.inl hz)).1).mp hm
  rcases this with ⟨_, h0⟩ | ⟨h, _⟩
  · exact hv h0
  · rw [hz] at h; cases h

/-! ### open flags -/

theorem openFlags_tail (v : Nat) : (openFlags v).tail = openSite.eval v := rfl

/-- The access-mode field (`v &&& O_ACCMODE`) is shown by the single name of its value:
    0 → O_RDONLY, 1 → O_WRONLY, 2 → O_RDWR.  Value 3 is the mask `O_ACCMODE`, not a mode; the code
    tests O_RDWR first, so it shows O_RDWR. -/
theorem accmode_name (v : Nat) :
    (openFlags v).head? = some (match v &&& Darwin.O_ACCMODE with
      | 0 => ⟨"O_RDONLY", 0⟩
      | 1 => ⟨"O_WRONLY", 1⟩
      | _ => ⟨"O_RDWR", 2⟩) := by
  have h3 : v &&& Darwin.O_ACCMODE = v % 4 := Nat.and_two_pow_sub_one_eq_mod v 2
  have e1 : (Int.toNat 2 &&& v ≠ 0) = (v / 2 % 2 = 1) := propext (two_pow_and_ne_zero_iff_mod 1 v)
  have e2 : (Int.toNat 1 &&& v ≠ 0) = (v % 2 = 1) := by
    have := two_pow_and_ne_zero_iff_mod 0 v
    rw [Nat.pow_zero, Nat.div_one] at this
    exact propext this
  rw [h3]
  simp only [openFlags, serializeOpenFlags, flagsIn, Gen.Flags.openAcc, Gen.Flags.openAcc_0,
    Gen.Flags.openAccElse, List.head?_cons, List.filter_cons, List.filter_nil]
  simp only [e1, e2]
  rcases (by omega : (v / 2 % 2 = 1 ∧ v % 2 = 1 ∧ v % 4 = 3) ∨ (v / 2 % 2 = 1 ∧ v % 2 = 0 ∧ v % 4 = 2) ∨
      (v / 2 % 2 = 0 ∧ v % 2 = 1 ∧ v % 4 = 1) ∨ (v / 2 % 2 = 0 ∧ v % 2 = 0 ∧ v % 4 = 0)) with
    ⟨ha, hb, hc⟩ | ⟨ha, hb, hc⟩ | ⟨ha, hb, hc⟩ | ⟨ha, hb, hc⟩ <;> simp [ha, hb, hc]

/-- Open flags outside the access-mode field: every name shown after the access mode is a single
    bit `k ≥ 2` that is set in the word. -/
theorem shown_sound_open (v : Nat) (m : EnumMember) (hm : m ∈ (openFlags v).tail) :
    ∃ k, 2 ≤ k ∧ k < 64 ∧ m.IsBit k ∧ v.testBit k = true := by
  have ok := CompSite.okB_spec openSite_okB
  rw [openFlags_tail] at hm
  have hmem : m ∈ Gen.Flags.openShown := (mem_flagsIn.mp hm).1
  have hout : m ∈ (Gen.Flags.openEnum.outside Darwin.O_ACCMODE).members := ok.declared m hmem
  have hnz : m.value ≠ 0 := by
    intro h0; exact not_mem_flagsIn_zero h0 hm
  obtain ⟨k, hk, hb, ht⟩ := CompSite.sound ok hm hnz
  refine ⟨k, ?_, hk, hb, ht⟩
  -- the member lies outside the access-mode field, so its bit is not bit 0 or 1
  have ho : EnumMember.outsideB Darwin.O_ACCMODE m = true := (List.mem_filter.mp hout).2
  simp only [EnumMember.outsideB, decide_eq_true_eq, hb.toNat] at ho
  have := (two_pow_and_eq_zero k Darwin.O_ACCMODE).mp ho
  apply Classical.byContradiction
  intro hlt
  have : k = 0 ∨ k = 1 := by omega
  rcases this with rfl | rfl
  · exact absurd this (by decide)
  · exact absurd this (by decide)

/-- Every set bit `k ≥ 2` for which `BscOpenFlags` declares a name is shown under that name. -/
theorem shown_complete_open (v k : Nat) (m : EnumMember)
    (hd : Gen.Flags.openEnum.ofValue ((2 ^ k : Nat) : Int) = some m) (hk : 2 ≤ k)
    (hb : v.testBit k = true) : m ∈ (openFlags v).tail := by
  have ok := CompSite.okB_spec openSite_okB
  rw [openFlags_tail]
  apply CompSite.complete ok (k := k) _ hb
  show (Gen.Flags.openEnum.outside Darwin.O_ACCMODE).ofValue _ = some m
  rw [EnumDef.outside_ofValue _ _ _ (Nat.testBit_lt_two_pow _), hd]
  calc Darwin.O_ACCMODE < 2 ^ 2 := by decide
    _ ≤ 2 ^ k := Nat.pow_le_pow_right (by decide) hk

/-! ### file modes -/

theorem statFlags_outside (v : Nat) :
    (statFlags v).filter (EnumMember.outsideB Darwin.S_IFMT) = statSite.eval v :=
  serializeStatFlags_outside _ _ _ _

/-- Permission and special bits: every shown member outside the file-type field is a single bit
    that is set in the word. -/
theorem shown_sound_stat (v : Nat) (m : EnumMember) (hm : m ∈ statFlags v)
    (ho : m.value.toNat &&& Darwin.S_IFMT = 0) : ∃ k, k < 12 ∧ m.IsBit k ∧ v.testBit k = true := by
  have ok := CompSite.okB_spec statSite_okB
  have hm' : m ∈ statSite.eval v := by
    rw [← statFlags_outside]; exact List.mem_filter.mpr ⟨hm, by simpa [EnumMember.outsideB] using ho⟩
  have hnz : m.value ≠ 0 := fun h0 => not_mem_flagsIn_zero h0 hm'
  obtain ⟨k, _, hb, ht⟩ := CompSite.sound ok hm' hnz
  have hdecl : m ∈ Gen.Flags.statEnum.members :=
    (List.mem_filter.mp (ok.declared m (mem_flagsIn.mp hm').1)).1
  rcases singlebit_tables.2.2 m hdecl with hft | ⟨j, hj, hbj⟩
  · -- a file type is not outside S_IFMT
    exfalso
    have : ∀ t ∈ Darwin.fileTypes, t.2 &&& Darwin.S_IFMT ≠ 0 := by decide
    exact this _ hft ho
  · exact ⟨k, hb.unique hbj ▸ hj, hb, ht⟩

/-- Every set permission / special bit for which `StatFlags` declares a name is shown under it. -/
theorem shown_complete_stat (v k : Nat) (m : EnumMember)
    (hd : Gen.Flags.statEnum.ofValue ((2 ^ k : Nat) : Int) = some m)
    (hk : Darwin.S_IFMT.testBit k = false) (hb : v.testBit k = true) : m ∈ statFlags v := by
  have ok := CompSite.okB_spec statSite_okB
  have : m ∈ statSite.eval v := by
    apply CompSite.complete ok (k := k) _ hb
    show (Gen.Flags.statEnum.outside Darwin.S_IFMT).ofValue _ = some m
    rw [EnumDef.outside_ofValue _ _ _ hk, hd]
  rw [← statFlags_outside] at this
  exact (List.mem_filter.mp this).1

/-- The file-type names shown for the word `v`. -/
def typeNames (v : Nat) : List EnumMember :=
  (statFlags v).filter fun m => !(EnumMember.outsideB Darwin.S_IFMT m)

theorem typeNames_eq (v : Nat) :
    typeNames v = ([⟨"S_IFIFO", 0o010000⟩, ⟨"S_IFCHR", 0o020000⟩, ⟨"S_IFDIR", 0o040000⟩, ⟨"S_IFBLK", 0o060000⟩,
        ⟨"S_IFREG", 0o100000⟩, ⟨"S_IFLNK", 0o120000⟩, ⟨"S_IFSOCK", 0o140000⟩] : List EnumMember).filter
      (fun m => decide (((v &&& Darwin.S_IFMT : Nat) : Int) = m.value ∧ 0 ≤ m.value)) := by
  have h : Gen.Flags.statIter.filter (fun m => !(EnumMember.outsideB Darwin.S_IFMT m)) =
      [⟨"S_IFIFO", 0o010000⟩, ⟨"S_IFCHR", 0o020000⟩, ⟨"S_IFDIR", 0o040000⟩, ⟨"S_IFBLK", 0o060000⟩,
        ⟨"S_IFREG", 0o100000⟩, ⟨"S_IFLNK", 0o120000⟩, ⟨"S_IFSOCK", 0o140000⟩] := by decide
  rw [← h]
  exact serializeStatFlags_inside _ _ _ _

/-- The file-type field (`v &&& S_IFMT`): when it holds one of Darwin's seven file types, exactly one
    file-type name is shown and it is that type's; any other field value shows no file-type name. -/
theorem filetype_name (v : Nat) :
    (∀ t ∈ Darwin.fileTypes, v &&& Darwin.S_IFMT = t.2 → typeNames v = [⟨t.1, t.2⟩]) ∧
    ((∀ t ∈ Darwin.fileTypes, v &&& Darwin.S_IFMT ≠ t.2) → typeNames v = []) := by
  rw [typeNames_eq]
  generalize v &&& Darwin.S_IFMT = f
  constructor
  · intro t ht hf
    subst hf
    revert t
    decide
  · intro h
    simp only [Darwin.fileTypes, List.mem_cons, List.not_mem_nil, or_false, forall_eq_or_imp, forall_eq] at h
    obtain ⟨h1, h2, h3, h4, h5, h6, h7⟩ := h
    simp only [List.filter_cons, List.filter_nil]
    have e : ∀ c : Nat, f ≠ c → decide (((f : Nat) : Int) = ((c : Nat) : Int) ∧ (0 : Int) ≤ ((c : Nat) : Int)) = false := by
      intro c hc
      apply decide_eq_false
      rintro ⟨h, _⟩
      exact hc (Int.ofNat_inj.mp h)
    rw [show ((0o010000 : Int)) = ((0o010000 : Nat) : Int) from rfl, e _ h1,
      show ((0o020000 : Int)) = ((0o020000 : Nat) : Int) from rfl, e _ h2,
      show ((0o040000 : Int)) = ((0o040000 : Nat) : Int) from rfl, e _ h3,
      show ((0o060000 : Int)) = ((0o060000 : Nat) : Int) from rfl, e _ h4,
      show ((0o100000 : Int)) = ((0o100000 : Nat) : Int) from rfl, e _ h5,
      show ((0o120000 : Int)) = ((0o120000 : Nat) : Int) from rfl, e _ h6,
      show ((0o140000 : Int)) = ((0o140000 : Nat) : Int) from rfl, e _ h7]
    rfl

/-! ### ioctl request words -/

/-- The split is the exact inverse of Darwin's `_IOC` packing: for each of the four directions,
    every group and number below 256 and every parameter length below 8192 (IOCPARM_MASK + 1),
    the word `_IOC(dir, group, num, len)` is shown as that direction's name, group, number, length. -/
theorem ioc_inverse (d : Nat) (nm : String) (hd : (d, nm) ∈ Darwin.directions) (g n l : Nat)
    (hg : g < 256) (hn : n < 256) (hl : l < 8192) :
    splitIoctl' (Darwin._IOC d g n l) = .ok ⟨nm, g, n, l⟩ := by
  have hdm : d % 2 ^ 29 = 0 ∧ d < 2 ^ 32 := by
    have : ∀ p ∈ Darwin.directions, p.1 % 2 ^ 29 = 0 ∧ p.1 < 2 ^ 32 := by decide
    exact this _ hd
  have hw := ioc_eq_add d g n l hdm.1 hg hn hl
  have hlook : Gen.Flags.iocParams.lookup d = some nm := values_match_darwin.2.2.2.2 (d, nm) hd
  have m1 : (0xff : Nat) = 2 ^ 8 - 1 := by decide
  have m2 : (0x1fff : Nat) = 2 ^ 13 - 1 := by decide
  have fa : Darwin._IOC d g n l &&& 0xe0000000 = d := by rw [and_dirmask, hw]; omega
  have fg : (Darwin._IOC d g n l >>> 8) &&& 0xff = g := by rw [m1, shr_and_mask, hw]; omega
  have fn : (Darwin._IOC d g n l >>> 0) &&& 0xff = n := by rw [m1, shr_and_mask, hw]; omega
  have fl : (Darwin._IOC d g n l >>> 16) &&& 0x1fff = l := by rw [m2, shr_and_mask, hw]; omega
  simp only [splitIoctl', splitIoctl, Gen.Flags.iocLayout, fa, fg, fn, fl, hlook]

/-- Total on the defined directions: a word whose direction field is one of Darwin's four directions
    never raises, and is shown as that direction's name and the three fields of the word. -/
theorem ioc_total_on_defined_directions (w : Nat) (d : Nat) (nm : String)
    (hd : (d, nm) ∈ Darwin.directions) (hw : w &&& Darwin.IOC_DIRMASK = d) :
    splitIoctl' w = .ok ⟨nm, w / 2 ^ 8 % 2 ^ 8, w % 2 ^ 8, w / 2 ^ 16 % 2 ^ 13⟩ := by
  have hlook : Gen.Flags.iocParams.lookup d = some nm := values_match_darwin.2.2.2.2 (d, nm) hd
  have m1 : (0xff : Nat) = 2 ^ 8 - 1 := by decide
  have m2 : (0x1fff : Nat) = 2 ^ 13 - 1 := by decide
  have hw' : w &&& 0xe0000000 = d := hw
  have fg : (w >>> 8) &&& 0xff = w / 2 ^ 8 % 2 ^ 8 := by rw [m1, shr_and_mask]
  have fn : (w >>> 0) &&& 0xff = w % 2 ^ 8 := by rw [m1, shr_and_mask]; simp
  have fl : (w >>> 16) &&& 0x1fff = w / 2 ^ 16 % 2 ^ 13 := by rw [m2, shr_and_mask]
  simp only [splitIoctl', splitIoctl, Gen.Flags.iocLayout, hw', fg, fn, fl, hlook]

/-- Exactly the words whose direction field is none of the table's keys raise `KeyError`:
    direction bits 000, 011 (VOID|OUT) and 101 (VOID|IN), which no Darwin macro produces. -/
theorem ioc_keyerror_iff (w : Nat) :
    splitIoctl' w = .error .keyError ↔ w / 2 ^ 29 % 8 ∈ [0, 3, 5] := by
  rw [splitIoctl', splitIoctl_keyError_iff]
  show Gen.Flags.iocParams.lookup (w &&& 0xe0000000) = none ↔ _
  rw [and_dirmask]
  generalize hj : w / 2 ^ 29 % 8 = j
  have : j < 8 := by omega
  have : j = 0 ∨ j = 1 ∨ j = 2 ∨ j = 3 ∨ j = 4 ∨ j = 5 ∨ j = 6 ∨ j = 7 := by omega
  clear hj
  rcases this with rfl | rfl | rfl | rfl | rfl | rfl | rfl | rfl <;> decide

/-- Re-packing what is shown gives back the (32-bit) request word. -/
theorem ioc_repack (w : Nat) (hw : w < 2 ^ 32) :
    Darwin._IOC (w &&& Darwin.IOC_DIRMASK) (w / 2 ^ 8 % 2 ^ 8) (w % 2 ^ 8) (w / 2 ^ 16 % 2 ^ 13) = w := by
  have hd : w &&& Darwin.IOC_DIRMASK = (w / 2 ^ 29 % 8) * 2 ^ 29 := and_dirmask w
  rw [hd, ioc_eq_add _ _ _ _ (by omega) (by omega) (by omega) (by omega)]
  omega

/-- No name is shown twice (the result is a sublist of a duplicate-free iteration, or the single
    zero member; the access-mode name is not one of the flags shown after it). -/
theorem shown_nodup :
    (∀ s ∈ Gen.Flags.sites, ∀ v : Nat, (s.eval v).Nodup) ∧ (∀ v : Nat, (openFlags v).Nodup) ∧
    (∀ v : Nat, (statFlags v).Nodup) := by
  have hs : ∀ s ∈ Gen.Flags.sites, s.iter.Nodup := by decide
  have ho : Gen.Flags.openShown.Nodup ∧
      ∀ a ∈ Gen.Flags.openAccElse :: Gen.Flags.openAcc, a ∉ Gen.Flags.openShown := by decide
  have hst : Gen.Flags.statIter.Nodup := by decide
  refine ⟨?_, ?_, ?_⟩
  · intro s h v
    have hf : (flagsIn s.iter v).Nodup := List.Nodup.sublist List.filter_sublist (hs s h)
    unfold CompSite.eval
    split
    · exact hf
    · split
      · exact List.nodup_cons.mpr ⟨List.not_mem_nil, List.nodup_nil⟩
      · exact hf
    · split
      · exact List.nodup_cons.mpr ⟨List.not_mem_nil, List.nodup_nil⟩
      · exact hf
  · intro v
    have hf : (flagsIn Gen.Flags.openShown v).Nodup := List.Nodup.sublist List.filter_sublist ho.1
    unfold openFlags serializeOpenFlags
    apply List.nodup_cons.mpr
    refine ⟨?_, hf⟩
    intro hmem
    have hin := (mem_flagsIn.mp hmem).1
    split at hin
    · rename_i m t hm
      have : m ∈ flagsIn Gen.Flags.openAcc v := by rw [hm]; exact List.mem_cons_self
      exact ho.2 m (List.mem_cons_of_mem _ (mem_flagsIn.mp this).1) hin
    · exact ho.2 _ List.mem_cons_self hin
  · intro v
    exact List.Nodup.sublist List.filter_sublist hst

/-! ### non-vacuity: concrete words -/

example : (openFlags 0x1000a43).map (·.name) = ["O_RDWR", "O_CREAT", "O_EXCL", "O_ASYNC", "O_CLOEXEC"] := by decide
example : (statFlags 0o120755).map (·.name) =
    ["S_IXOTH", "S_IROTH", "S_IXGRP", "S_IRGRP", "S_IXUSR", "S_IWUSR", "S_IRUSR", "S_IFLNK"] := by decide
example : typeNames 0o060644 = [⟨"S_IFBLK", 0o060000⟩] :=
  (filetype_name _).1 ("S_IFBLK", 0o060000) (by decide) (by decide)
example : typeNames 0o050644 = [] := (filetype_name _).2 (by decide)
example : splitIoctl' 0x40087468 = .ok ⟨"IOC_OUT", 0x74, 104, 8⟩ := by rfl
example : splitIoctl' (Darwin._IOC Darwin.IOC_INOUT 0x69 17 4100) = .ok ⟨"IOC_IN | IOC_OUT", 0x69, 17, 4100⟩ :=
  ioc_inverse _ _ (by decide) _ _ _ (by decide) (by decide) (by decide)
example : splitIoctl' 0x00007401 = .error .keyError := (ioc_keyerror_iff _).mpr (by decide)
example : ∃ s ∈ Gen.Flags.sites, s.func = "mach.to_vm_prot" ∧
    (s.eval 0).map (·.name) = ["VM_PROT_NONE"] ∧ (s.eval 0x13).map (·.name) = ["VM_PROT_READ", "VM_PROT_WRITE", "VM_PROT_COPY"]
    ∧ s.eval 0x100 = [] := by decide
example : ∃ s ∈ Gen.Flags.sites, s.func = "bsd.serialize_access_flags" ∧
    (s.eval 0).map (·.name) = ["F_OK"] ∧ (s.eval 8).map (·.name) = ["F_OK"] ∧ (s.eval 6).map (·.name) = ["W_OK", "R_OK"] := by
  decide

end C11
end KdVerif
