import KdVerif.Model.TracePipeline
import KdVerif.Proofs.Declared
/-
  C13: lemmas about the object-state model of `PyKdebugParser.traces` (Model/TracePipeline.lean).  Core Lean only.
-/
set_option linter.unusedSimpArgs false
namespace KdVerif.TracePipeline
open KdVerif.Trace KdVerif.Filters KdVerif.Declared

/-- Forgetting the tables `runAnnot` keeps with every trace gives the traces of `run`. -/
theorem runAnnot_map_fst (env : Env) (s : Trace.PState) (m : List Kevent) :
    (runAnnot env s m).map (·.1) = (Trace.run env s m).1 := by
  induction m generalizing s with
  | nil => rfl
  | cons e es ih =>
    cases hf : feed env s e with
    | error err => simp [runAnnot, hf, run_cons_error env s e es err hf]
    | ok p =>
      rcases p with ⟨r, s'⟩
      rw [run_cons_ok env s s' e es r hf]
      simp only [runAnnot, hf, List.map_append, ih s']
      cases r <;> rfl

/-- The helper post-filters (no process filter) as one predicate on the trace. -/
def keepHelpers (cfg : Cfg) (o : TraceOut) : Bool :=
  (!addTraceClass cfg || o.cls != Gen.Consts.DBG_TRACE) && (!addFsClass cfg || o.cls != Gen.Consts.DBG_FSYSTEM)

theorem postFilter_noProcess (cfg : Cfg) (hp : cfg.filterProcess = none) (l : List (TraceOut × Tabs)) :
    postFilter cfg l = l.filter fun p => keepHelpers cfg p.1 := by
  simp only [postFilter, hp, keepHelpers]
  have htrue : l.filter (fun _ => true) = l := List.filter_eq_self.2 (fun _ _ => rfl)
  by_cases h1 : addTraceClass cfg = true <;> by_cases h2 : addFsClass cfg = true <;>
    simp [h1, h2, List.filter_filter, Bool.and_comm, htrue]

theorem filter_fst_map {α β : Type} (l : List (α × β)) (p : α → Bool) :
    (l.filter fun x => p x.1).map (·.1) = (l.map (·.1)).filter p := by
  induction l with
  | nil => rfl
  | cons x xs ih => by_cases h : p x.1 = true <;> simp [List.filter_cons, h, ih]

theorem keventsWith_tid (cfg : Cfg) (t : Nat) (fc : List Nat) (items : List Item) :
    keventsWith { cfg with filterTid := some t } fc items
      = (keventsWith { cfg with filterTid := none } fc items).filter fun e => e.tid == t := by
  simp only [keventsWith, isEventidAllowed]
  by_cases h : (!fc.isEmpty || !cfg.filterSubclass.isEmpty) = true
  · simp only [h, if_true, List.filter_filter]
    congr 1
    funext e
    exact Bool.and_comm _ _
  · simp only [h, if_false, Bool.false_eq_true]

/-- The events fed to the decoders under a thread filter are the thread's part of those fed without it. -/
theorem fedEvents_tid (cfg : Cfg) (t : Nat) (d : Dump) :
    fedEvents { cfg with filterTid := some t } d = (fedEvents { cfg with filterTid := none } d).filter fun e => e.tid == t := by
  simp only [fedEvents]
  exact keventsWith_tid cfg t _ _


/-! ### the text of a generated decoder under an event-level filter -/
open KdVerif.IR

/-- Everything a decoder may read except `threads_pids` (the one table that records outside DBG_TRACE write). -/
def classSel : Sel :=
  { startAll := true, endA := true, tid := true, data := true, lookups := true, gstr := true, tnames := true,
    host := true, hostErrno := true, fields := true }

def classOnly (d : Decoder) : Bool := d.fields.all (within classSel) && within classSel d.str

theorem parseVnodes_congr (env : Env) (w w' : List Kevent) (h : w.filter (isLookup env) = w'.filter (isLookup env)) :
    parseVnodes env w = parseVnodes env w' := by
  simp only [parseVnodes, h]

theorem filter_lookup_comm (env : Env) (w : List Kevent) (q : Kevent → Bool) :
    (w.filter q).filter (isLookup env) = (w.filter (isLookup env)).filter q := by
  simp only [List.filter_filter]
  apply List.filter_congr
  intro x _
  exact Bool.and_comm _ _

/-- The window record built from two event lists with the same first record, the same last record and the same
    lookup records differs at most in the `threads_pids` getter (when the string tables agree). -/
theorem winOf_congr (env : Env) (T T' : Tabs) (w w' : List Kevent) (vnodes : List Vnode)
    (hh : w.head? = w'.head?) (hl : w.getLast? = w'.getLast?)
    (hlk : vnodes ≠ [] → w.filter (isLookup env) = w'.filter (isLookup env))
    (hgs : T.globalStrings.get = T'.globalStrings.get) (htn : T.tidsNames.get = T'.tidsNames.get) :
    winOf env T' w' vnodes = { winOf env T w vnodes with threadsPids := T'.threadsPids.get } := by
  simp only [winOf, hh, hl, hgs, htn]
  cases vnodes with
  | nil => rfl
  | cons v vs =>
    have := hlk (by simp)
    simp only [parseVnodes, filter_lookup_comm, this]

theorem agree_classSel (c : Ctx) (f : Nat → Option Nat) :
    Agree classSel c { c with win := { c.win with threadsPids := f } } := by
  refine ⟨rfl, fun _ _ => rfl, fun _ => rfl, fun _ => rfl, fun _ _ => rfl, fun _ => rfl, fun _ => rfl,
    fun _ => ⟨rfl, rfl⟩, fun _ => rfl, ?_, fun _ => rfl, fun _ => ⟨rfl, rfl, rfl, rfl⟩, fun _ => rfl, fun _ => rfl⟩
  intro hh; simp [classSel] at hh

theorem agree_winOf_class (env : Env) (T T' : Tabs) (w w' : List Kevent) (vnodes : List Vnode) (fs : List Val)
    (hh : w.head? = w'.head?) (hl : w.getLast? = w'.getLast?)
    (hlk : vnodes ≠ [] → w.filter (isLookup env) = w'.filter (isLookup env))
    (hgs : T.globalStrings.get = T'.globalStrings.get) (htn : T.tidsNames.get = T'.tidsNames.get) :
    Agree classSel { host := env.host, tables := env.tables, win := winOf env T w vnodes, fields := fs }
      { host := env.host, tables := env.tables, win := winOf env T' w' vnodes, fields := fs } := by
  rw [winOf_congr env T T' w w' vnodes hh hl hlk hgs htn]
  exact agree_classSel { host := env.host, tables := env.tables, win := winOf env T w vnodes, fields := fs } _

/-- **Footprint of a generated decoder.**  A decoder that does not read `threads_pids` renders the same text (or raises
    the same exception) from two event lists that have the same first record (START), the same last record (END) and —
    when the decoder looks at lookups at all — the same VFS_LOOKUP records, under string tables that agree. -/
theorem runGeneratedObj_window_congr (env : Env) (T T' : Tabs) (d : Decoder) (w w' : List Kevent)
    (hh : w.head? = w'.head?) (hl : w.getLast? = w'.getLast?)
    (hlk : usesLookups d = true → w.filter (isLookup env) = w'.filter (isLookup env))
    (hgs : T.globalStrings.get = T'.globalStrings.get) (htn : T.tidsNames.get = T'.tidsNames.get)
    (hsel : classOnly d = true) : runGeneratedObj env T d w = runGeneratedObj env T' d w' := by
  simp only [classOnly, Bool.and_eq_true] at hsel
  unfold runGeneratedObj
  rw [mkWindow_eq, mkWindow_eq]
  have hv : (if usesLookups d = true then parseVnodes env w else .ok [])
      = (if usesLookups d = true then parseVnodes env w' else .ok []) := by
    by_cases hu : usesLookups d = true
    · simp only [hu, if_true]; exact parseVnodes_congr env w w' (hlk hu)
    · simp only [hu, if_false, Bool.false_eq_true]
  rw [← hv]
  cases hx : (if usesLookups d = true then parseVnodes env w else .ok []) with
  | error e => rfl
  | ok vnodes =>
    simp only [Except.map, bind, Except.bind]
    have hlk' : vnodes ≠ [] → w.filter (isLookup env) = w'.filter (isLookup env) := by
      intro hne
      by_cases hu : usesLookups d = true
      · exact hlk hu
      · simp only [hu, if_false, Bool.false_eq_true, Except.ok.injEq] at hx
        exact absurd hx.symm hne
    rw [evalFields_congr classSel _ _ (agree_winOf_class env T T' w w' vnodes [] hh hl hlk' hgs htn) d.fields hsel.1]
    cases hf : evalFields _ d.fields with
    | error e => rfl
    | ok fs =>
      simp only []
      rw [eval_congr classSel _ _ (agree_winOf_class env T T' w w' vnodes fs hh hl hlk' hgs htn) d.str hsel.2]

theorem runGenerated_window_congr (env : Env) (T T' : Tabs) (d : Decoder) (w w' : List Kevent)
    (hh : w.head? = w'.head?) (hl : w.getLast? = w'.getLast?)
    (hlk : usesLookups d = true → w.filter (isLookup env) = w'.filter (isLookup env))
    (hgs : T.globalStrings.get = T'.globalStrings.get) (htn : T.tidsNames.get = T'.tidsNames.get)
    (hsel : classOnly d = true) : runGenerated env T d w = runGenerated env T' d w' := by
  simp only [runGenerated, runGeneratedObj_window_congr env T T' d w w' hh hl hlk hgs htn hsel]

theorem head?_filter_of_head {α : Type} (p : α → Bool) (l : List α) (h : ∀ x, l.head? = some x → p x = true) :
    (l.filter p).head? = l.head? := by
  cases l with
  | nil => rfl
  | cons x xs => simp [List.filter_cons, h x rfl]

theorem getLast?_filter_of_last {α : Type} (p : α → Bool) (l : List α) (h : ∀ x, l.getLast? = some x → p x = true) :
    (l.filter p).getLast? = l.getLast? := by
  induction l using Pairing.snoc_induction with
  | nil => rfl
  | snoc xs x _ =>
    have hx : p x = true := h x (by simp)
    simp [List.filter_append, hx]

/-- The same for a window and its filtered version: when the filter keeps the window's first and last record and
    (for a decoder that looks at lookups) every VFS_LOOKUP record, the decoder's text is unchanged. -/
theorem runGenerated_filter_congr (env : Env) (T T' : Tabs) (d : Decoder) (w : List Kevent) (q : Kevent → Bool)
    (hh : ∀ x, w.head? = some x → q x = true) (hl : ∀ x, w.getLast? = some x → q x = true)
    (hlk : usesLookups d = true → ∀ x ∈ w, isLookup env x = true → q x = true)
    (hgs : T.globalStrings.get = T'.globalStrings.get) (htn : T.tidsNames.get = T'.tidsNames.get)
    (hsel : classOnly d = true) : runGenerated env T d w = runGenerated env T' d (w.filter q) := by
  apply runGenerated_window_congr env T T' d w (w.filter q) (head?_filter_of_head q w hh).symm
    (getLast?_filter_of_last q w hl).symm _ hgs htn hsel
  intro hu
  rw [filter_lookup_comm]
  symm
  apply List.filter_eq_self.2
  intro x hx
  obtain ⟨hxw, hxl⟩ := List.mem_filter.1 hx
  exact hlk hu x hxw hxl

end KdVerif.TracePipeline
