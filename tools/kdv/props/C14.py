"""C14 — formatted lines are the concatenation of the enabled columns; switching a column off removes exactly that
column; colouring never changes the text; the process column is `name(pid)` / `Error: tid N` for the process the dump
declares for the thread AT THAT POINT OF THE STREAM (sections `process-column`, `process-column-kevents`: thread map
superseded by the new-thread / exec / terminate-pid / sampler records up to and including the event that completed
the trace)."""
import ast
import contextlib
import io
import json
import os
import re

from .. import core
from ..core import run_section, hs

MODULE = 'KdVerif.Props.C14'
NAMESPACE = 'KdVerif.C14'
TRUSTED = ['Model/Format.lean (formatKevent / formatTrace / formatCallstack / formatLog / formatProcess / formatTimestamp) is tied to '
           'the SOURCE TEXT of pykdebugparser.py by translation: tools/gen_pyir_fm.py (pure ast) turns _format_timestamp, '
           '_format_process, _format_kevent, _format_trace, _format_callstack, _format_log into the Python-subset IR of '
           'Model/PyIRFm on every run (Gen/PyIRFm); source_is_expected_ir says the generated methods are those of '
           'Spec/PyIRFmExpected; format_*_ir_eq_model (via Proofs/PyIRFm) say those methods, run by the interpreter PyIRFm.exec, '
           'ARE the model functions for every switch setting, colour machinery, tables and argument.  Trusted there: the '
           'translator (its normal form: both spellings of a conditional append are one node, the alias tid = event.tid is '
           'inlined), the interpreter as semantics of that subset (tested against CPython by the sections *-ir), the format '
           'primitives of Model/Format as the meaning of the format specifications; outside the tie: the wall-clock branch of '
           '_format_timestamp (opaque node wallClock), str(trace), str(uuid), strftime, pygments, termcolor',
           'how the switches get their values is tied to the SOURCE TEXT too: tools/gen_pyir_cli.py translates the printing commands of '
           '__main__.py (option declarations: --show-tid/--no-show-tid default False, --color/--no-color default True on traces only), '
           'PyKdebugParser.__init__ (show_* and color defaults, the wall-clock parameters None) and the formatted_* maps into the IR of '
           'Model/PyIRCli; cli_source_is_expected_ir, kevents / traces / callstacks / logs _lines_ir_eq_model compose translated '
           'command + translated map + translated builder; trusted for that: that translator and interpreter (sections cli-glue, '
           'cli-decls, cli-init, cli-formatted test them against click / CPython) and click\'s parsing of the command line',
           "Python format specifications (f'{s:<58}', f'{n:>11}', f'{n:016x}', hex(), str(int), bytes.__repr__) "
           'modelled in Model/Format.lean and diffed against CPython in section format-primitives',
           'DgbFuncQual reflected into Gen/Enums.lean',
           'Model/Declared.lean (declaredTables: a plain fold over the prefix on the declarative pairing specification) is '
           'PROVED equal to the tables of the whole-TracesParser model Model/Trace.lean (tables_are_fold); that model and the '
           'laziness of formatted_traces are tied to the code by section `process-column` (driver command fmtp)',
           'pygments highlight() and termcolor colored() are external: abstract parameters of the model; the '
           'transparency theorems hold under explicit assumptions that the correspondence checks on every generated '
           'line by stripping ANSI escapes from the real coloured output']
ASSUMPTIONS = ['not all five wall-clock parameters are set (the tool never sets them): _format_timestamp is str(ts)+" "; '
               'the float/datetime branch is outside the model',
               'str(trace), str(uuid) and strftime() texts are opaque inputs of the line builders',
               'thread ids / timestamps / addresses / offsets are non-negative integers; texts hold no lone surrogates',
               'for trace lines: erasing the highlighted body gives the body (false for pygments on bodies with a '
               'carriage return or a leading/trailing newline: known finding K7)',
               'process column along the stream: a request whose generator is consumed line by line (formatted_traces is a lazy '
               'map); feed_generator raises no exception on the prefix; the code table names no table-writing handler for the '
               'page-fault sub-record ids 0x1320008..0x1320014 (nested parse_event_list of handle_mach_vmfault; true of the '
               'bundled table); pids are unsigned (thread map: 32-bit, record words: 64-bit), so the formatter\'s absent-marker '
               '-1 never occurs in the pipeline\'s tables',
               'event lines (formatted_kevents) never run the trace decoders: their process column is the thread map alone']

ANSI = re.compile(r'\x1b\[[0-9;]*m')
SWITCHES = ['show_timestamp', 'show_name', 'show_func_qual', 'show_tid', 'show_process', 'show_args']
COLNAMES = ['timestamp', 'name', 'qualifier', 'tid', 'process', 'args']
ALL_BITS = [format(i, '06b') for i in range(64)]
QUALS = ['DBG_FUNC_NONE', 'DBG_FUNC_START', 'DBG_FUNC_END', 'DBG_FUNC_ALL']
PNAMES = ['launchd', 'kernel_task', 'a', '', 'Finder', 'naïve', 'x' * 19, 'Error: tid 7', 'with space', '(1)']
PIDS = [0, 1, 42, 7, 99999, 2 ** 31, 2 ** 32 - 1]
TIDS = [0, 1, 7, 8, 0x1234, 99999999999, 2 ** 63, 2 ** 64 - 1]

_codes_cache = {}


def default_codes():
    if 'd' not in _codes_cache:
        from pykdebugparser.trace_codes import default_trace_codes
        _codes_cache['d'] = default_trace_codes()
        _codes_cache['byname'] = {v: k for k, v in _codes_cache['d'].items()}
    return _codes_cache['d']


def code_of(name):
    default_codes()
    return _codes_cache['byname'][name]


@contextlib.contextmanager
def force_colour():
    """termcolor 2.x emits escapes only on a terminal or when FORCE_COLOR is set (decision cached)."""
    import termcolor
    saved = {k: os.environ.get(k) for k in ('FORCE_COLOR', 'NO_COLOR', 'ANSI_COLORS_DISABLED')}
    os.environ['FORCE_COLOR'] = '1'
    os.environ.pop('NO_COLOR', None)
    os.environ.pop('ANSI_COLORS_DISABLED', None)
    cc = getattr(getattr(termcolor, 'termcolor', termcolor), 'can_colorize', None)
    if cc is not None and hasattr(cc, 'cache_clear'):
        cc.cache_clear()
    try:
        yield
    finally:
        for k, v in saved.items():
            if v is None:
                os.environ.pop(k, None)
            else:
                os.environ[k] = v
        if cc is not None and hasattr(cc, 'cache_clear'):
            cc.cache_clear()


def make_parser(bits, color=False, tmap=None, time=()):
    from datetime import timezone
    from pykdebugparser.pykdebugparser import PyKdebugParser
    p = PyKdebugParser()
    for name, b in zip(SWITCHES, bits):
        setattr(p, name, b == '1')
    p.color = color
    vals = {'numer': 125, 'denom': 3, 'mach_absolute_time': 0, 'usecs_since_epoch': 0, 'timezone': timezone.utc}
    for k in time:                                   # never all five: the tick branch stays selected
        setattr(p, k, vals[k])
    if tmap is not None:                             # direct builder calls: the tables as the container would set them
        for tid, pid, name in tmap:
            p.threads_pids[tid] = pid
            if name is not None:                     # None: a thread attributed to a pid that was never named
                p.pids_names[pid] = name
    return p


def tmap_arg(tmap):
    return ';'.join('%d:%d:%s' % (t, p, hs(n)) if n is not None else '%d:%d' % (t, p) for t, p, n in tmap) or '-'


def texts(lines):
    return 'ok ' + ' '.join(hs(x) for x in lines)


def process_text(tmap, tid):
    """name(pid) for the pid the dump declares for the thread, Error: tid N for an undeclared thread."""
    pid = None
    for t, p, _ in tmap:
        if t == tid:
            pid = p
    if pid is None or pid == -1:                     # -1 is the code's own "undeclared" marker
        return 'Error: tid %d' % tid
    name = ''
    for _, p, n in tmap:
        if p == pid and n is not None:
            name = n
    return '%s(%d)' % (name, pid)


def gen_tmap(rng, tids, pids=PIDS, names=PNAMES):
    n = rng.randrange(0, 6)
    out = []
    for _ in range(n):
        out.append([rng.choice(tids), rng.choice(pids), rng.choice(names)])
    if out and rng.random() < 0.4:                   # a thread declared twice / a pid named twice: the later entry wins
        out.append([out[0][0], rng.choice(pids), rng.choice(PNAMES)])
    if out and rng.random() < 0.3:
        out.append([rng.choice(tids), out[0][1], rng.choice(PNAMES)])
    return out


# ---------------------------------------------------------------- primitives

def gen_primitives(rng, tier):
    cases = []
    for b in range(256):
        cases.append(['brepr', bytes([b]).hex()])
    for a in (0x27, 0x22, 0x5c, 0x41, 0x00):
        for b in (0x27, 0x22, 0x5c, 0x0a, 0x7f):
            cases.append(['brepr', bytes([a, b]).hex()])
            cases.append(['brepr', bytes([b, a, a]).hex()])
    cases.append(['brepr', ''])
    n = 400 if tier == 'quick' else 20000
    for _ in range(n):
        ln = rng.choice([1, 2, 5, 32, 32, 32, 40])
        alphabet = rng.choice([range(256), [0x27, 0x22, 0x41, 0x5c], range(0x20, 0x7f), [0, 0x27], [0, 0x22]])
        cases.append(['brepr', bytes(rng.choice(list(alphabet)) for _ in range(ln)).hex()])
    strs = ['', 'a', 'naïve', '日本語', 'x' * 57, 'x' * 58, 'x' * 59, 'BSC_getpid (0x40c0050)', ' lead', 'trail ',
            '\t', 'é' * 11, '\U0001f600' * 3, 'a\nb']
    for s in strs:
        for w in (0, 1, 11, 12, 15, 16, 27, 34, 58):
            cases.append(['padr', w, s])
            cases.append(['padl', w, s])
    nums = [0, 1, 9, 10, 15, 16, 255, 256, 2 ** 31, 2 ** 32 - 1, 2 ** 32, 2 ** 63, 2 ** 64 - 1, 2 ** 64, 2 ** 64 + 1,
            10 ** 10, 10 ** 11 - 1, 10 ** 11, 16 ** 15, 16 ** 16 - 1, 16 ** 16, 2 ** 70]
    nums += [rng.getrandbits(rng.randrange(1, 72)) for _ in range(100 if tier == 'quick' else 5000)]
    for v in nums:
        for op in ('hex016', 'pyhex', 'pystr'):
            cases.append([op, v])
    for bits in ('111111', '001000', '001100', '101010'):
        for q in range(0, 9):
            cases.append(['qual', bits, q])
    return cases


def prim_line(c):
    if c[0] == 'brepr':
        return 'brepr ' + (c[1] or '-')
    if c[0] in ('padr', 'padl'):
        return '%s %d %s' % (c[0], c[1], hs(c[2]))
    if c[0] == 'qual':
        return 'fmtq %s %d' % (c[1], c[2])
    return '%s %d' % (c[0], c[1])


def prim_impl(c):
    if c[0] == 'brepr':
        return texts([str(bytes.fromhex(c[1]))])
    if c[0] == 'padr':
        return texts([f'{c[2]:<{c[1]}}'])
    if c[0] == 'padl':
        return texts([f'{c[2]:>{c[1]}}'])
    if c[0] == 'hex016':
        return texts([f'{c[1]:016x}'])
    if c[0] == 'pyhex':
        return texts([hex(c[1])])
    if c[0] == 'pystr':
        return texts([str(c[1])])
    if c[0] == 'qual':                               # the real builder on a tuple with an arbitrary qualifier
        from pykdebugparser.kevent import Kevent
        p = make_parser(c[1])
        return texts([p._format_kevent(Kevent(1, b'', (), 2, 0, 0, c[2]), {})])
    raise ValueError(c)


def untext(got):
    return [bytes.fromhex(x if x != '-' else '').decode('utf-8', 'surrogatepass') for x in got[3:].split(' ')] \
        if got != 'ok ' else []


def prim_oracle(c, got):
    if not got.startswith('ok '):
        return ('format:primitive-raises', '%r raised %s' % (c, got))
    t = untext(got)[0]
    if c[0] == 'brepr':
        b = bytes.fromhex(c[1])
        ok = ast.literal_eval(t) == b and all(0x20 <= ord(ch) < 0x7f for ch in t)
        return None if ok else ('format:bytes-repr', 'repr of %r does not read back' % b)
    if c[0] in ('padr', 'padl'):
        s, w = c[2], c[1]
        ok = len(t) == max(w, len(s)) and (t.startswith(s) if c[0] == 'padr' else t.endswith(s)) \
            and t.replace(s, '', 1).strip(' ') == ''
        return None if ok else ('format:padding', 'padding %r to %d gave %r' % (s, w, t))
    if c[0] == 'qual':
        exp_q = (QUALS[c[2]].ljust(15) if c[2] < 4 else 'Error'.ljust(16))
        cols = ['1 ', '0x0'.ljust(58), exp_q, '0x2'.ljust(12), 'Error: tid 2'.ljust(27), "b''".ljust(34)]
        return compare_columns('kevent', c[1], cols, t, COLNAMES)
    return None


# ---------------------------------------------------------------- event lines

def gen_event_streams(rng, n):
    default_codes()
    known = [code_of(nm) for nm in ('BSC_getpid', 'MACH_SCHED', 'BSC_read', 'TRACE_STRING_PROC_EXIT', 'VFS_LOOKUP')]
    out = []
    for _ in range(n):
        tids = rng.sample(TIDS, 4)
        evs = []
        for i in range(rng.randrange(1, 8)):
            eid = rng.choice(known) if rng.random() < 0.6 else (rng.getrandbits(30) << 2)
            kind = rng.random()
            if kind < 0.3:
                data = bytes(rng.choice([0x27, 0x22, 0x41, 0x5c, 0x00, 0x0a, 0xff]) for _ in range(32))
            elif kind < 0.5:
                data = bytes(rng.choice([0x27, 0x41, 0x00]) for _ in range(32))
            else:
                data = rng.randbytes(32)
            evs.append([(i + 1) * 256 + 1 + rng.randrange(255) + rng.choice([0, 2 ** 40, 2 ** 63]), rng.choice(tids),
                        eid | rng.randrange(4), data.hex()])
        custom = None
        if rng.random() < 0.4:                      # a caller-supplied code table
            custom = [[e[2] & ~3, rng.choice(['X', 'MY_EVENT', 'a b', 'long' * 16, 'é'])] for e in evs if rng.random() < 0.6]
            custom = [list(x) for x in {c[0]: c for c in custom}.values()]
        time = rng.sample(['numer', 'denom', 'mach_absolute_time', 'usecs_since_epoch', 'timezone'], rng.randrange(0, 5))
        out.append({'tmap': gen_tmap(rng, tids), 'events': evs, 'codes': custom, 'time': time,
                    'default_none': rng.random() < 0.1})
    return out


def kevent_records(s):
    from ..impl import record
    return [record(e[0], bytes.fromhex(e[3]), e[1], e[2]) for e in s['events']]


def codes_of(s):
    if s['codes'] is not None:
        return {int(k): v for k, v in s['codes']}
    return default_codes()


def kevent_line(case):
    s = case['stream']
    codes = codes_of(s)
    rel = sorted({e[2] & ~3 for e in s['events'] if (e[2] & ~3) in codes})
    carg = ';'.join('%d:%s' % (k, hs(codes[k])) for k in rel) or '-'
    return ' '.join(['fmtk', case['bits'], tmap_arg(s['tmap']), carg] + [r.hex() for r in kevent_records(s)])


def kevent_impl_lines(s, bits):
    from .. import streams
    p = make_parser(bits, time=s['time'])
    data = streams.v2_file([tuple(x) for x in s['tmap']], kevent_records(s))
    codes = None if (s['codes'] is None and s['default_none']) else codes_of(s)
    return list(p.formatted_kevents(io.BytesIO(data), codes))


def kevent_impl(case):
    return texts(kevent_impl_lines(case['stream'], case['bits']))


def kevent_columns(s, e):
    codes = codes_of(s)
    eid = e[2] - e[2] % 4
    name = '%s (0x%x)' % (codes[eid], eid) if eid in codes else '0x%x' % eid
    return ['%d ' % e[0], name.ljust(58), QUALS[e[2] % 4].ljust(15), ('0x%x' % e[1]).ljust(12),
            process_text(s['tmap'], e[1]).ljust(27), repr(bytes.fromhex(e[3])).ljust(34)]


def compare_columns(kind, bits, cols, line, colnames):
    """Cut `line` at the widths of the expected enabled columns; name the first column that differs."""
    pos = 0
    for c, b, nm in zip(cols, bits, colnames):
        if b != '1':
            continue
        seg = line[pos:pos + len(c)]
        if seg != c:
            return ('format:%s-%s-column' % (kind, nm), 'column %s of the %s line is %r, expected %r (switches %s)'
                    % (nm, kind, seg, c, bits))
        pos += len(c)
    if pos != len(line):
        return ('format:%s-extra-text' % kind, 'the %s line has text after its last enabled column: %r' % (kind, line[pos:]))
    return None


_all_on_cache = {}


def kevent_oracle(case, got):
    s, bits = case['stream'], case['bits']
    if not got.startswith('ok '):
        return ('format:kevent-raises', 'formatted_kevents raised ' + got)
    lines = untext(got)
    if len(lines) != len(s['events']):
        return ('format:kevent-line-count', '%d lines for %d events' % (len(lines), len(s['events'])))
    key = json.dumps(s, sort_keys=True)
    if key not in _all_on_cache:
        _all_on_cache.clear()
        _all_on_cache[key] = kevent_impl_lines(s, '111111')
    for e, line, full in zip(s['events'], lines, _all_on_cache[key]):
        cols = kevent_columns(s, e)
        r = compare_columns('kevent', bits, cols, line, COLNAMES) or compare_columns('kevent', '111111', cols, full, COLNAMES)
        if r:
            return r
        # removing the disabled columns from the all-on line, and nothing else, gives this line
        pos, cut = 0, ''
        for c, b in zip(cols, bits):
            if b == '1':
                cut += full[pos:pos + len(c)]
            pos += len(c)
        if cut != line or pos != len(full):
            return ('format:kevent-column-off', 'line with switches %s is not the all-on line minus the disabled columns'
                    % bits)
    return None


# ---------------------------------------------------------------- trace lines

PAIRS = ['BSC_getpid', 'BSC_getuid', 'BSC_getppid', 'BSC_sync', 'BSC_read']
SINGLES = ['MACH_SCHED', 'MACH_MKRUNNABLE', 'MACH_STKHANDOFF']
EXIT_NAMES = ['launchd', 'a b', 'naïve', '', 'x' * 31, 'tab\there', ' lead', 'trail ', 'in\nside', 'q"uote', "it's", '/* c',
              '#if', 'a\\b']
K7_NAMES = ['a\rb', 'cr\r', 'end\n', 'crlf\r\nx', '\rstart', 'two\n\n', 'x\r\n']


def gen_trace_streams(rng, n, names):
    out = []
    for _ in range(n):
        tids = rng.sample(TIDS, 3)
        evs, expect = [], []
        ts = 1
        for _ in range(rng.randrange(1, 6)):
            tid = rng.choice(tids)
            r = rng.random()
            if r < 0.4:
                eid = code_of(rng.choice(PAIRS))
                t0 = ts
                evs.append([ts, tid, eid | 1, [rng.randrange(0, 50) for _ in range(4)]]); ts += rng.randrange(1, 300)
                if rng.random() < 0.4:               # a single-record trace of another thread inside the window
                    tid2 = rng.choice([t for t in tids if t != tid])
                    evs.append([ts, tid2, code_of(rng.choice(SINGLES)), [rng.randrange(0, 8) for _ in range(4)]])
                    expect.append([ts, tid2]); ts += rng.randrange(1, 300)
                evs.append([ts, tid, eid | 2, [0, rng.randrange(0, 100000), 0, 0]]); ts += rng.randrange(1, 300)
                expect.append([t0, tid])
            elif r < 0.7:
                evs.append([ts, tid, code_of(rng.choice(SINGLES)), [rng.randrange(0, 8) for _ in range(4)]])
                expect.append([ts, tid]); ts += rng.randrange(1, 300)
            else:
                nb = rng.choice(names).encode('utf-8')[:32].ljust(32, b'\x00')
                evs.append([ts, tid, code_of('TRACE_STRING_PROC_EXIT'), nb.hex()])
                expect.append([ts, tid]); ts += rng.randrange(1, 300)
        out.append({'tmap': gen_tmap(rng, tids), 'events': evs, 'expect': expect})
    return out


def trace_records(s):
    from ..impl import record, record_args
    return [record(e[0], bytes.fromhex(e[3]), e[1], e[2]) if isinstance(e[3], str) else record_args(e[0], e[3], e[1], e[2])
            for e in s['events']]


def trace_file(s):
    from .. import streams
    return streams.v2_file([tuple(x) for x in s['tmap']], trace_records(s))


def trace_bodies(s):
    """(timestamp, tid, str(trace)) of the traces the real decoder delivers (the body is opaque to this slice)."""
    p = make_parser('111111')
    return [(t.ktraces[0].timestamp, t.ktraces[0].tid, str(t)) for t in p.traces(io.BytesIO(trace_file(s)), default_codes())]


def trace_line(case):
    s = case['stream']
    return ' '.join(['fmtt', case['bits'], tmap_arg(s['tmap'])] + ['%d:%d:%s' % (a, b, hs(c)) for a, b, c in trace_bodies(s)])


def trace_impl_lines(s, bits, color):
    p = make_parser(bits, color=color)
    return list(p.formatted_traces(io.BytesIO(trace_file(s)), default_codes()))


def trace_impl(case):
    lines = trace_impl_lines(case['stream'], case['bits'], case['color'])
    if case['color']:
        lines = [ANSI.sub('', x) for x in lines]
    return texts(lines)


def trace_header_cols(s, ts, tid):
    return ['%d ' % ts, ('%d' % tid).rjust(11) + ' ', process_text(s['tmap'], tid).ljust(34)]


def pygments_newline_rewrite(body):
    return body.replace('\r\n', '\n').replace('\r', '\n').strip('\n')


def trace_oracle(case, got):
    s, bits = case['stream'], case['bits']
    if not got.startswith('ok '):
        return ('format:trace-raises', 'formatted_traces raised ' + got)
    lines = untext(got)
    bodies = trace_bodies(s)
    if len(lines) != len(s['expect']) or len(bodies) != len(lines):
        return ('format:trace-line-count', '%d lines for %d traces' % (len(lines), len(s['expect'])))
    hbits = bits[0] + bits[3] + bits[4]
    for (ts, tid), (bts, btid, body), line in zip(s['expect'], bodies, lines):
        if (ts, tid) != (bts, btid):
            return ('format:trace-first-record', 'trace stamped %r, its first record is %r' % ((bts, btid), (ts, tid)))
        cols = trace_header_cols(s, ts, tid)
        hdr = ''.join(c for c, b in zip(cols, hbits) if b == '1')
        r = compare_columns('trace', hbits, cols, line[:len(hdr)], ['timestamp', 'tid', 'process'])
        if r:
            return r
        if line[len(hdr):] != body:
            if case['color']:
                if line[len(hdr):] == pygments_newline_rewrite(body):
                    return ('trace:colour-rewrites-newlines', 'colouring rewrote carriage returns / edge newlines of %r' % body)
                return ('trace:colour-changes-text', 'coloured line, escapes removed, reads %r; plain body %r'
                        % (line[len(hdr):], body))
            return ('format:trace-body', 'body %r is not str(trace) %r' % (line[len(hdr):], body))
    return None


def k7_impl(case):
    """Finding stream: the compared answer is the colour-off text (which the model describes)."""
    return texts(trace_impl_lines(case['stream'], case['bits'], False))


def k7_oracle(case, got):
    r = trace_oracle(dict(case, color=False), got)
    if r:
        return r
    on = texts([ANSI.sub('', x) for x in trace_impl_lines(case['stream'], case['bits'], True)])
    return trace_oracle(dict(case, color=True), on)


# ---------------------------------------------------------------- the process column along the stream

PC_NAMES = ['launchd', 'kernel_task', 'a', '', 'naïve', 'x' * 19, 'with space', '(1)']


def _pl():
    from .. import pipeline as PL
    return PL


def gen_pc_streams(rng, n):
    """Version-2 dumps: a thread map (threads declared twice, pids named twice, undeclared threads) and a stream of
    complete operations among which new-thread pairs, exec pairs (data + string, sometimes only one), terminate-pid
    records and sampler windows with thread-info records re-declare threads while traces of those threads go by."""
    PL = _pl()
    out = []
    for _ in range(n):
        tids = rng.sample([5, 6, 7, 99, 1000, 1001, 2 ** 40 + 3, 2 ** 63 + 1], 4)
        pids = [1, 2, 42, 77, 99999, 2 ** 31]
        tmap = [[t, rng.choice(pids), rng.choice(PC_NAMES)] for t in rng.sample(tids, rng.randrange(0, 4))]
        if tmap and rng.random() < 0.4:
            tmap.append([tmap[0][0], rng.choice(pids), rng.choice(PC_NAMES)])
        if tmap and rng.random() < 0.3:
            tmap.append([rng.choice(tids), tmap[0][1], rng.choice(PC_NAMES)])
        s = PL.Stream(rng)
        s.ts = 256 * rng.randrange(1, 1000)
        for _ in range(rng.randrange(1, 14)):
            tid = rng.choice(tids)
            k = rng.random()
            if k < 0.22:
                wd, ws = rng.choice([(True, True)] * 4 + [(True, False), (False, True)])
                s.newthread(tid, rng.choice(tids + [4242]), rng.choice(pids + [555]), 'nt%d' % rng.randrange(30), wd, ws)
            elif k < 0.34:
                wd, ws = rng.choice([(True, True)] * 4 + [(True, False), (False, True)])
                s.exec_(tid, rng.choice(pids + [556]), 'ex%d' % rng.randrange(30), wd, ws)
            elif k < 0.44:
                s.ev('TRACE_DATA_THREAD_TERMINATE_PID', PL.NONE, tid, [rng.choice(pids + [557]), 7, 0, 0])
            elif k < 0.56:
                s.sample(tid, rng.choice([1, 1, 9, 0, 8]), thd=(rng.choice(pids + [558]), rng.choice(tids), 1)
                         if rng.random() < 0.8 else None)
            elif k < 0.62:                      # two thread-info records in one window: END re-applies the FIRST
                fl = rng.choice([1, 0])
                t2 = rng.choice(tids)
                s.ev('PERF_Event', PL.START, tid, [fl, 1, 0, 0])
                s.ev('PERF_THD_Data', PL.NONE, tid, [rng.choice(pids), t2, 0x1000, 1])
                s.ev('PERF_THD_Data', PL.NONE, tid, [559, t2, 0x1000, 1])
                s.ev('PERF_Event', PL.END, tid, [fl, 1, 0, 0])
            elif k < 0.78:
                s.syscall('BSC_getpid', tid, [0, 0, 0, 0], [0, rng.randrange(1000), 0, 0])
            elif k < 0.86:
                s.syscall('BSC_open', tid, [1, 2, 3, 4], [0, 3, 0, 0], [('/p/%d' % rng.randrange(99) + 'x' * rng.choice([0, 30]), 9)])
            elif k < 0.90:
                s.ev('MACH_SCHED', PL.NONE, tid, [1, 2, 3, 4])
            elif k < 0.95:
                # records that must be NEUTRAL for the attribution: thread-terminate (naming a declared or an undeclared
                # thread), thread names, global strings
                r = rng.random()
                if r < 0.6:
                    s.ev('TRACE_DATA_THREAD_TERMINATE', PL.NONE, tid, [rng.choice(tids + [4242]), 0, 0, 0])
                elif r < 0.8:
                    s.threadname(tid, 'worker-%d' % rng.randrange(99), rng.random() < 0.3)
                else:
                    s.gstring(tid, rng.randrange(1, 9), 'str%d' % rng.randrange(99) + 'y' * rng.choice([0, 30]))
            else:
                s.ev('TRACE_STRING_PROC_EXIT', PL.NONE, tid, data=s.name32('exit%d' % rng.randrange(9)))
        recs = s.recs
        codes = {str(k): v for k, v in PL.restricted_codes(recs, extra=('VFS_LOOKUP',)).items()}
        out.append({'tmap': tmap, 'events': [r.hex() for r in recs], 'codes': codes})
    return out


def pc_file(s):
    from .. import streams
    return streams.v2_file([tuple(x) for x in s['tmap']], [bytes.fromhex(h) for h in s['events']])


def pc_line(case):
    PL = _pl()
    s = case['stream']
    codes = {int(k): v for k, v in s['codes'].items()}
    return ' '.join(['fmtp', PL.codes_arg(codes), tmap_arg(s['tmap'])] + s['events'])


def pc_run(s):
    """formatted_traces (colour off; timestamp, thread id and process columns on) consumed lazily, line by line; the
    bodies and first records come from a separate plain traces() request on another parser object."""
    codes = {int(k): v for k, v in s['codes'].items()}
    data = pc_file(s)
    q = make_parser('100110')
    firsts, err2 = [], '-'
    try:
        for t in q.traces(io.BytesIO(data), codes):
            firsts.append((t.ktraces[0].timestamp, t.ktraces[0].tid, str(t)))
    except Exception as e:
        err2 = core.err_name(e)
    p = make_parser('100110')
    lines, err = [], '-'
    try:
        for ln in p.formatted_traces(io.BytesIO(data), codes):
            lines.append(ln)
    except Exception as e:
        err = core.err_name(e)
    return lines, err, firsts, err2


def pc_impl(case):
    lines, err, firsts, err2 = pc_run(case['stream'])
    items = []
    for ln, (ts, tid, body) in zip(lines, firsts):
        prefix = '%d %s ' % (ts, ('%d' % tid).rjust(11))
        if not ln.startswith(prefix) or not ln.endswith(body):
            items.append('%d:%d:%s' % (ts, tid, hs('?' + ln)))
            continue
        items.append('%d:%d:%s' % (ts, tid, hs(ln[len(prefix):len(ln) - len(body)].rstrip(' '))))
    return 'ok %s ;err=%s' % (' '.join(items) or '-', err)


def pc_expected_tables(s, upto):
    """ORACLE: the thread map (later entry wins) superseded, in stream order, by the map-updating records among
    events[0..upto] — written from the property statement, independently of the model and of the decoders."""
    from pykdebugparser.kevent import from_kd_buf
    codes = {int(k): v for k, v in s['codes'].items()}
    tp, pn = {}, {}
    for t, p_, n in s['tmap']:
        tp[t] = p_
        pn[p_] = n
    pend_new, pend_exec, sampler = {}, {}, {}
    for h in s['events'][:upto + 1]:
        e = from_kd_buf(bytes.fromhex(h))
        name, a, q = codes.get(e.eventid), e.values, e.func_qualifier
        single = q in (0, 3)
        if name == 'TRACE_DATA_NEWTHREAD' and single:
            tp[a[0]] = a[1]
            pend_new[e.tid] = a[1]
        elif name == 'TRACE_STRING_NEWTHREAD' and single:
            if e.tid in pend_new:
                pn[pend_new[e.tid]] = e.data.replace(b'\0', b'').decode()
        elif name == 'TRACE_DATA_EXEC' and single:
            pend_exec[e.tid] = a[0]
        elif name == 'TRACE_STRING_EXEC' and single:
            if e.tid in pend_exec:
                pn[pend_exec[e.tid]] = e.data.replace(b'\0', b'').decode()
        elif name == 'TRACE_DATA_THREAD_TERMINATE_PID' and single:
            tp[e.tid] = a[0]
        elif name == 'PERF_THD_Data' and single:
            tp[a[1]] = a[0]
            if e.tid in sampler:
                sampler[e.tid][1].append((a[1], a[0]))
        elif name == 'PERF_Event' and q == 1:
            sampler[e.tid] = (a[0], [])
        elif name == 'PERF_Event' and q == 2 and e.tid in sampler:
            flags, infos = sampler.pop(e.tid)
            if flags & 1 and infos:                 # the sampler window re-declares its FIRST thread-info record
                tp[infos[0][0]] = infos[0][1]
    return tp, pn


def pc_trigger(s, first_ts):
    """Index of the event that completes the trace whose first record has timestamp `first_ts` (streams of complete
    operations: the END of the same thread and code that follows the START)."""
    from pykdebugparser.kevent import from_kd_buf
    evs = [from_kd_buf(bytes.fromhex(h)) for h in s['events']]
    for i, e in enumerate(evs):
        if e.timestamp == first_ts:
            if e.func_qualifier != 1:
                return i
            for j in range(i + 1, len(evs)):
                if evs[j].tid == e.tid and evs[j].eventid == e.eventid and evs[j].func_qualifier & 2:
                    return j
    return None


def pc_oracle(case, got):
    s = case['stream']
    lines, err, firsts, err2 = pc_run(s)
    if err != '-' or err2 != '-':
        return ('process:raises', 'formatted_traces raised %s / traces raised %s' % (err, err2))
    if len(lines) != len(firsts):
        return ('process:line-count', '%d lines for %d traces' % (len(lines), len(firsts)))
    for ln, (ts, tid, body) in zip(lines, firsts):
        trig = pc_trigger(s, ts)
        if trig is None:
            return ('process:unknown-trigger', 'no event completes the trace stamped %d' % ts)
        tp, pn = pc_expected_tables(s, trig)
        proc = ('%s(%d)' % (pn.get(tp[tid], ''), tp[tid])) if tid in tp else 'Error: tid %d' % tid
        exp = '%d ' % ts + ('%d' % tid).rjust(11) + ' ' + proc.ljust(34) + body
        if ln != exp:
            tp0, pn0 = pc_expected_tables(s, trig - 1)
            proc0 = ('%s(%d)' % (pn0.get(tp0[tid], ''), tp0[tid])) if tid in tp0 else 'Error: tid %d' % tid
            if proc0 != proc and ln == '%d ' % ts + ('%d' % tid).rjust(11) + ' ' + proc0.ljust(34) + body:
                return ('process:stale-tables', 'line %r is formatted with the tables BEFORE its trigger event (expected %r)'
                        % (ln, proc))
            return ('process:wrong-process', 'trace stamped %d of thread %d: line %r, the dump declares %r at that point'
                    % (ts, tid, ln, proc))
    return None


def same_tick(s, block):
    """The same dump with its records stamped in blocks of `block` consecutive records per clock tick (the kernel's clock
    is coarse: consecutive records of one thread often carry the same timestamp)."""
    evs = []
    t0 = int.from_bytes(bytes.fromhex(s['events'][0])[:8], 'little') if s['events'] else 256
    for i, h in enumerate(s['events']):
        b = bytes.fromhex(h)
        evs.append(((t0 + i // block).to_bytes(8, 'little') + b[8:]).hex())
    return dict(s, events=evs)


def tick_lines(s):
    codes = {int(k): v for k, v in s['codes'].items()}
    p = make_parser('000110')                       # thread id and process columns, no timestamp column
    lines, err = [], '-'
    try:
        for ln in p.formatted_traces(io.BytesIO(pc_file(s)), codes):
            lines.append(ln)
    except Exception as e:
        err = core.err_name(e)
    return lines, err


def tick_oracle(case, got):
    """Nothing but the timestamp column may depend on the timestamps: with that column off, the lines of the re-stamped
    dump are the lines of the original dump."""
    a, ea = tick_lines(case['orig'])
    b, eb = tick_lines(case['stream'])
    if (a, ea) != (b, eb):
        i = next((k for k, (x, y) in enumerate(zip(a, b)) if x != y), min(len(a), len(b)))
        return ('process:line-depends-on-timestamps',
                'records re-stamped %d per tick: line %d reads %r, with distinct timestamps %r (timestamp column off; %d / %d '
                'lines, errors %s / %s)' % (case['block'], i, (b[i:i + 1] or ['<none>'])[0], (a[i:i + 1] or ['<none>'])[0],
                                            len(b), len(a), eb, ea))
    return None


def pc_kevent_stream(s):
    """The same dump as an input of the event-line section (formatted_kevents never runs the decoders)."""
    evs = []
    for h in s['events']:
        b = bytes.fromhex(h)
        evs.append([int.from_bytes(b[:8], 'little'), int.from_bytes(b[40:48], 'little'), int.from_bytes(b[48:52], 'little'),
                    b[8:40].hex()])
    return {'tmap': s['tmap'], 'events': evs, 'codes': [[int(k), v] for k, v in s['codes'].items()], 'time': [],
            'default_none': False}


# ---------------------------------------------------------------- callstacks

def gen_callstacks(rng, n):
    import uuid
    out = []
    for _ in range(n):
        tids = rng.sample(TIDS, 3)
        frames = []
        for _ in range(rng.choice([0, 1, 2, 3, 5, 12])):
            addr = rng.choice([0, 1, 0x1000, 2 ** 32, 2 ** 63, 2 ** 64 - 1, rng.getrandbits(48), rng.getrandbits(64)])
            if rng.random() < 0.6:
                frames.append([addr, str(uuid.UUID(int=rng.getrandbits(128))), rng.choice([0, 0x10, addr, rng.getrandbits(40)])])
            else:
                frames.append([addr, None, None])
        out.append({'tmap': gen_tmap(rng, tids, PIDS + [-1, -1, -7], PNAMES + [None] * 4), 'ts': rng.choice([0, 1, 12345, 2 ** 40, 2 ** 64 - 1]), 'tid': rng.choice(tids),
                    'frames': frames})
    return out


def cs_line(case):
    s = case['stream']
    fr = ['%d/%s/%d' % (a, hs(u), o) if u is not None else '%d' % a for a, u, o in s['frames']]
    return ' '.join(['fmtc', case['bits'], tmap_arg(s['tmap']), str(s['ts']), str(s['tid'])] + fr)


def cs_impl(case):
    import uuid
    from pykdebugparser.callstacks_parser import Callstack, Frame
    s = case['stream']
    p = make_parser(case['bits'], tmap=s['tmap'])
    frames = [Frame(a, uuid.UUID(u) if u is not None else None, o) for a, u, o in s['frames']]
    return texts([p._format_callstack(Callstack(s['ts'], s['tid'], frames))])


def cs_oracle(case, got):
    s, bits = case['stream'], case['bits']
    if not got.startswith('ok '):
        return ('format:callstack-raises', '_format_callstack raised ' + got)
    text = untext(got)[0]
    parts = text.split('\n')
    if len(parts) != 1 + len(s['frames']):
        return ('format:callstack-line-count', '%d lines for %d frames' % (len(parts), len(s['frames'])))
    hbits = bits[0] + bits[3] + bits[4]
    r = compare_columns('callstack', hbits, trace_header_cols(s, s['ts'], s['tid']), parts[0], ['timestamp', 'tid', 'process'])
    if r:
        return r
    for i, ((a, u, o), ln) in enumerate(zip(s['frames'], parts[1:])):
        exp = ' ' * i + ('%s:0x%016x' % (u, o) if u is not None else '0x%016x' % a)
        if ln != exp:
            return ('format:callstack-frame', 'frame %d rendered %r, expected %r' % (i, ln, exp))
    return None


# ---------------------------------------------------------------- log lines

def gen_logs(rng, n):
    out = []
    for _ in range(n):
        tids = rng.sample(TIDS, 3)
        out.append({'tmap': gen_tmap(rng, tids, PIDS + [-1, -1, -7], PNAMES + [None] * 4), 'tid': rng.choice(tids), 'pid': rng.choice(PIDS + [-1]),
                    'process': rng.choice(PNAMES + ['', '']), 'msg': rng.choice(['hello', '', 'two  spaces ', 'naïve ☃', 'a\nb', '%s']),
                    'sec': rng.choice([0, 1, 1700000000, 4102444800, 253402300799]), 'usec': rng.choice([0, 1, 500000, 999999])})
    return out


def log_time(s):
    from .. import streams
    return streams.make_log('m', 1, sec=s['sec'], usec=s['usec']).unix_date.strftime('%Y-%m-%d %H:%M:%S.%f')


def log_line(case):
    s = case['stream']
    return ' '.join(['fmtl', '1' if case['color'] else '0', tmap_arg(s['tmap']), hs(log_time(s)), str(s['tid']), str(s['pid']),
                     hs(s['process']), hs(s['msg'])])


def log_impl_text(s, bits, color):
    from .. import streams
    p = make_parser(bits, color=color, tmap=s['tmap'])
    ev = streams.make_log(s['msg'], s['tid'], s['process'], s['pid'], s['sec'], s['usec'])
    if color:
        with force_colour():
            return p._format_log(ev)
    return p._format_log(ev)


def log_impl(case):
    return texts([log_impl_text(case['stream'], case['bits'], case['color'])])   # raw text, escapes included


def log_oracle(case, got):
    s = case['stream']
    if not got.startswith('ok '):
        return ('format:log-raises', '_format_log raised ' + got)
    raw = untext(got)[0]
    text = ANSI.sub('', raw)
    exp = log_time(s).ljust(27) + ((' ' + process_text(s['tmap'], s['tid']).ljust(27) + ' ') if s['process'] else '') + s['msg']
    if case['color'] and raw == text and 'colour-not-forced' not in _notes:
        _notes.add('colour-not-forced')
    if text != exp:
        if case['color']:
            if re.sub(' +', ' ', text) == re.sub(' +', ' ', exp):
                return ('log:colour-changes-padding', 'coloured log line, escapes removed, is padded differently: %r vs %r'
                        % (text, exp))
            return ('log:colour-changes-text', 'coloured log line reads %r, plain %r' % (text, exp))
        if s['process'] and process_text(s['tmap'], s['tid']).ljust(27) not in text:
            return ('format:log-process-column', 'log line %r lacks the process column %r'
                    % (text, process_text(s['tmap'], s['tid']).ljust(27)))
        return ('format:log-line', 'log line %r, expected %r' % (text, exp))
    return None


_notes = set()

# ---------------------------------------------------------------- translation tie

MIRROR = {'fmtk': 'irfmtk', 'fmtkf': 'irfmtkf', 'fmtq': 'irfmtq', 'fmtt': 'irfmtt', 'fmtc': 'irfmtc', 'fmtl': 'irfmtl'}


def ambient_answer(case):
    """One case of the ambient section (tools/kdv/ambient.py), answered in the helper process: the texts of the lines."""
    k = case['kind']
    if k == 'kevent':
        return kevent_impl(case)
    if k == 'trace':
        return texts(trace_impl_lines(case['stream'], case['bits'], case['color']))     # escapes included
    if k == 'callstack':
        return cs_impl(case)
    return log_impl(case)


def ambient_cases(rng, tier):
    k = 1 if tier == 'quick' else 6
    bits = ['111111', '111011', '101111', '110111', '011111', '111101']
    cases = []
    for s in gen_event_streams(rng, 3 * k):
        cases += [{'kind': 'kevent', 'bits': b, 'stream': s} for b in bits[:4]]
    for s in gen_trace_streams(rng, 3 * k, EXIT_NAMES):
        cases += [{'kind': 'trace', 'bits': b, 'stream': s, 'color': c} for b in bits[:4] for c in (False, True)]
    for s in gen_callstacks(rng, 2 * k):
        cases += [{'kind': 'callstack', 'bits': b, 'stream': s} for b in bits[:3]]
    for s in gen_logs(rng, 3 * k):
        cases += [{'kind': 'log', 'bits': '111111', 'stream': s, 'color': c} for c in (False, True)]
    return cases


def translation_tie(rep):
    """Are the methods translated from pykdebugparser.py the ones format_*_ir_eq_model are proved for?  Switches the mirror
    sections `*-ir` on: every section that drives fmtk / fmtq / fmtt / fmtc / fmtl is driven a second time through the
    GENERATED methods under the interpreter of Model/PyIRFm and compared with the same answers of the real code."""
    ans = core.drive(['fmircheck'])[0]
    if ans == 'same':
        rep.notes.append('translation tie: Gen/PyIRFm (from pykdebugparser.py) = Spec/PyIRFmExpected')
    else:
        rep.broken.append('theorem source_is_expected_ir: the IR that tools/gen_pyir_fm.py translates from the source text of the '
                          'line builders of pykdebugparser.py is not the program of Spec/PyIRFmExpected that '
                          'format_*_ir_eq_model are proved for (%s)' % ans[:600])
    rep.mirror = dict(MIRROR)


# ---------------------------------------------------------------- driver

RULES = {
    'format-primitives': "bytes.__repr__ (all 256 single bytes, quote/backslash combinations, random 32-byte words over "
                         "several alphabets), f'{s:<w}' / f'{s:>w}' (ASCII, accented, CJK, astral; widths around every "
                         "width the code uses), f'{n:016x}', hex(), str(int) at the 32/64-bit and 11-digit boundaries, the "
                         'qualifier column for qualifiers 0..8 through the real _format_kevent (Error branch)',
    'kevent-lines': 'all 64 show_* settings x seeded version-2 files read by formatted_kevents (default and '
                    'caller-supplied code tables, public and unknown event ids, thread maps with undeclared threads, '
                    're-declared threads and re-named pids, quote-heavy argument bytes, 0..4 of the 5 wall-clock parameters '
                    'set); non-trivial = distinct (setting, file) pairs with at least one line',
    'trace-lines': 'all 64 settings x colour on/off x version-2 files holding real BSC_getpid/getuid/getppid/sync/read '
                   'windows, MACH_SCHED/MKRUNNABLE/STKHANDOFF records (also nested in a window of another thread) and '
                   'TRACE_STRING_PROC_EXIT names, read by formatted_traces; colour-on output compared after removing '
                   'ANSI escapes',
    'trace-lines-K7': 'finding stream: TRACE_STRING_PROC_EXIT names with carriage returns / trailing newlines; compared '
                      'text = colour off; the oracle renders colour on and reports trace:colour-rewrites-newlines',
    'process-column': 'version-2 dumps (thread maps with re-declared threads, re-named pids and undeclared threads) whose streams '
                      'hold new-thread / exec pairs (sometimes only the data or only the string record), terminate-pid records, '
                      'sampler windows with one or two thread-info records (flag on and off) between syscalls, lookups and '
                      'single-record traces of the re-declared threads; PyKdebugParser.formatted_traces consumed lazily (colour '
                      'off); compared with the model: (first timestamp, thread, process text) of every line; oracle: an '
                      'independent Python fold of the map-updating records up to and including the event that completed the '
                      'trace; signature process:stale-tables when a line shows the tables before its trigger event',
    'process-column-kevents': 'the same dumps through formatted_kevents (all columns on): the process column is the thread map '
                              'alone — the map-updating records are not interpreted by the event listing',
    'callstack-texts': 'all 64 settings x Callstack/Frame tuples (0..12 frames, attributed and unattributed, 64-bit and '
                       'wider addresses) through _format_callstack',
    'log-lines': 'all 64 settings x colour on (FORCE_COLOR, raw escape sequences compared with the termcolor model) / off '
                 'x OsLogEvent objects (process present/absent, declared/undeclared thread, pid -1) through _format_log',
}


def product(streams_, color_opts=(None,)):
    cases = []
    for s in streams_:
        for bits in ALL_BITS:
            for col in color_opts:
                c = {'bits': bits, 'stream': s}
                if col is not None:
                    c['color'] = col
                cases.append(c)
    return cases


def correspondence(rep, rng, tier):
    from .. import pipeline as _PL
    translation_tie(rep)
    _PL.section_e2e(rep, rng, tier, n=(120 if tier == 'quick' else 4000))
    from .. import scenhist
    scenhist.section(rep, rng, tier, 'C14')        # the names the tables hold are those of THIS stream's records
    from .. import ambient
    ambient.section(rep, rng, tier, 'C14', 'kdv.props.C14:ambient_answer', ambient_cases(rng, tier))
    k = 1 if tier == 'quick' else 20
    run_section(rep, 'format-primitives', gen_primitives(rng, tier), prim_line, prim_impl, prim_oracle,
                nontrivial_fn=lambda c, g: g.startswith('ok'), kind_fn=lambda c, g: c[0], rule=RULES['format-primitives'])
    run_section(rep, 'kevent-lines', product(gen_event_streams(rng, 16 * k)), kevent_line, kevent_impl, kevent_oracle,
                nontrivial_fn=lambda c, g: g.startswith('ok ') and len(g) > 3,
                kind_fn=lambda c, g: 'on=%d' % c['bits'].count('1'), rule=RULES['kevent-lines'])
    run_section(rep, 'trace-lines', product(gen_trace_streams(rng, 8 * k, EXIT_NAMES), (False, True)), trace_line, trace_impl,
                trace_oracle, nontrivial_fn=lambda c, g: g.startswith('ok ') and len(g) > 3,
                kind_fn=lambda c, g: ('colour' if c['color'] else 'plain') + ':on=%d' % c['bits'].count('1'),
                rule=RULES['trace-lines'])
    k7 = [{'bits': rng.choice(ALL_BITS), 'stream': s, 'color': False} for s in gen_trace_streams(rng, 60 * k, K7_NAMES)
          if any(isinstance(e[3], str) for e in s['events'])]
    run_section(rep, 'trace-lines-K7', k7, trace_line, k7_impl, k7_oracle,
                nontrivial_fn=lambda c, g: g.startswith('ok ') and len(g) > 3, rule=RULES['trace-lines-K7'])
    pcs = gen_pc_streams(rng, 600 * k)
    run_section(rep, 'process-column', [{'stream': x} for x in pcs], pc_line, pc_impl, pc_oracle,
                nontrivial_fn=lambda c, g: g.startswith('ok ') and not g.startswith('ok - '),
                kind_fn=lambda c, g: 'lines=%d' % min(8, len(g.split(' ;')[0].split(' ')) - 1),
                rule=RULES['process-column'])
    tick_cases = []
    for i, x in enumerate(pcs[:(150 if tier == 'quick' else 4000)]):
        if x['events'] and bytes.fromhex(x['events'][0])[0] != 0:
            blk = [len(x['events']), 2, 3, len(x['events']), 5][i % 5]
            tick_cases.append({'stream': same_tick(x, blk), 'orig': x, 'block': blk})
    run_section(rep, 'process-column-same-tick', tick_cases, pc_line, pc_impl, tick_oracle,
                nontrivial_fn=lambda c, got: len(got) > 12, kind_fn=lambda c, got: 'block=%s' % ('all' if c['block'] > 5 else c['block']),
                rule='the process-column dumps re-stamped so that 2 / 3 / 5 / all consecutive records share one timestamp: '
                     'lines vs the model, and (timestamp column off) vs the lines of the dump with distinct timestamps')
    run_section(rep, 'process-column-kevents', [{'bits': '111111', 'stream': pc_kevent_stream(x)} for x in pcs[:200 * k]],
                kevent_line, kevent_impl, kevent_oracle, nontrivial_fn=lambda c, g: g.startswith('ok ') and len(g) > 3,
                rule=RULES['process-column-kevents'])
    run_section(rep, 'callstack-texts', product(gen_callstacks(rng, 12 * k)), cs_line, cs_impl, cs_oracle,
                nontrivial_fn=lambda c, g: g.startswith('ok '), kind_fn=lambda c, g: 'frames=%d' % len(c['stream']['frames']),
                rule=RULES['callstack-texts'])
    logs = gen_logs(rng, 150 * k)
    logs.sort(key=lambda s: 0 if s['process'] and s['tmap'] else 1)      # the all-settings product gets lines with a process
    logs[1]['process'] = ''
    log_cases = product(logs[:2], (False, True)) + [{'bits': rng.choice(ALL_BITS), 'stream': s, 'color': col}
                                                    for s in logs[2:] for col in (False, True)]
    run_section(rep, 'log-lines', log_cases, log_line, log_impl, log_oracle,
                nontrivial_fn=lambda c, g: g.startswith('ok '),
                kind_fn=lambda c, g: ('colour' if c['color'] else 'plain') + (':process' if c['stream']['process'] else ':bare'),
                rule=RULES['log-lines'])
    if 'colour-not-forced' in _notes:
        rep.notes.append('termcolor emitted no escape sequences even with FORCE_COLOR: colour-on log lines were compared '
                         'as plain text only')
        rep.broken.append('log-lines: colour could not be forced (termcolor emitted no escapes)')
    from .. import cliir                            # --show-tid / --color from the command line to the line builders
    cliir.section(rep, rng, tier, 'C14', commands=cliir.PRINTING, emphasis=('show_tid', 'color'))


SECTIONS = {
    'format-primitives': (prim_line, prim_impl, prim_oracle),
    'kevent-lines': (kevent_line, kevent_impl, kevent_oracle),
    'trace-lines': (trace_line, trace_impl, trace_oracle),
    'trace-lines-K7': (trace_line, k7_impl, k7_oracle),
    'callstack-texts': (cs_line, cs_impl, cs_oracle),
    'process-column': (pc_line, pc_impl, pc_oracle),
    'process-column-kevents': (kevent_line, kevent_impl, kevent_oracle),
    'process-column-same-tick': (pc_line, pc_impl, tick_oracle),
    'log-lines': (log_line, log_impl, log_oracle),
}


def replay(path):
    with open(path) as fd:
        r = json.load(fd)
    if 'replay' not in r:
        print(json.dumps(r, indent=1)[:4000])
        return 1
    if r['replay'].get('section') in ('cli-glue', 'cli-pwc-raise', 'cli-decls', 'cli-init', 'cli-formatted'):
        from .. import cliir
        return cliir.replay(r['replay'], 'C14', path)
    if r['replay'].get('section') == 'scenario-history':
        from .. import scenhist
        bad, lines = scenhist.replay(r['replay'])
        print('\n'.join(lines))
        if bad:
            print(f'VIOLATION property=C14 replay={path}')
        return 1 if bad else 0
    if r['replay'].get('section') == 'ambient':
        from .. import ambient
        bad, lines = ambient.replay(r['replay'])
        print('\n'.join(lines))
        if bad:
            print(f'VIOLATION property=C14 replay={path}')
        return 1 if bad else 0
    case, sec = r['replay']['case'], r['replay']['section']
    if sec == 'end-to-end':
        return _pl().replay_e2e(case, 'C14', path)
    line_fn, impl_fn, oracle_fn = SECTIONS[sec]
    try:
        got = impl_fn(case)
    except Exception as e:
        got = 'err ' + core.err_name(e)
    res = oracle_fn(case, got)
    model = core.drive([line_fn(case)])[0]
    print('section:', sec)
    print('case :', json.dumps(case)[:2000])
    print('impl :', got[:2000])
    print('model:', model[:2000])
    if got.startswith('ok '):
        print('impl text :', untext(got)[:4])
    if res:
        print('oracle:', res[0], '-', res[1])
        print(f'VIOLATION property=C14 replay={path}')
        return 1
    print('no violation on this input')
    return 0


LEVEL_TEXT = ('Translation tie: source_is_expected_ir (the methods translated from the source text on every run = Spec/PyIRFmExpected) + '
              'format_timestamp / process / kevent / trace / callstack / log _ir_eq_model (the translated methods, interpreted, '
              'ARE Model/Format for every setting and argument; kevent_ir_is_join, trace_ir_is_header_body read the column '
              'theorems on the interpreted source). '
              'Lean theorems over the statement-by-statement model of the four line builders, for all 2^6 switch settings '
              'and all inputs: kevent_is_join, trace_is_join, callstack_is_join, log_is_join, column_off (+ trace / '
              'callstack / log variants), kevent_column_removed, header_column_removed, process_column_lookup, '
              'log_colour_transparent; trace_colour_transparent_partial under an explicit assumption on the highlighter. '
              'Process column along the stream: thread_map_later_wins, tables_are_fold (the pipeline\'s tables after any prefix '
              '= the declarative fold declaredTables), process_column_spec / trace_process_columns_spec (a line is formatted '
              'with the tables as of its trigger event: name(pid) of the declared pid, Error: tid N when never declared), '
              'kevent_process_column_spec (event lines: thread map alone), samples_thread_info_is_bit0. '
              'End to end over Model/EndToEnd (bytes of a version-2 or version-3 dump -> lines): e2e_line_shape (line i = _format_trace of trace i of '
              'traces() on the tables at its yield; nothing added, reordered or dropped but the traces from the first rendering '
              'exception on), e2e_process_column / e2e_process_column_unfiltered (line i is the join of its columns and its '
              'process column is processSpec of declaredTables of the prefix ending with its trigger event), e2e_unreadable. '
              'Model also tied to the code by differential runs of formatted_kevents / formatted_traces / _format_callstack / '
              '_format_log for all 64 settings, colour on and off, and of the Python format primitives; the same runs are '
              'repeated through the GENERATED IR (sections *-ir). '
              'From the command line to the line, everything in between translated from the source (tools/gen_pyir_cli.py -> '
              'Gen/PyIRCli): cli_source_is_expected_ir, kevents_lines_ir_eq_model / traces_lines_ir_eq_model / '
              'callstacks_lines_ir_eq_model / logs_lines_ir_eq_model (translated command + translated __init__ + translated formatted_* '
              'map + translated _format_*: the lines printed are print_with_count of formatKevent / formatTrace / formatCallstack / '
              'formatLog over whatever the listing delivers, with the thread-id column exactly as --show-tid says, the highlighter '
              'exactly as --color / --no-color says (traces), colour on for logs, every other column on).')
LEVEL_NOTE = ('Partial: colour transparency of trace lines assumes the highlighter can be erased (pygments rewrites carriage '
              'returns and edge newlines: known finding K7); the wall-clock branch of _format_timestamp is outside the '
              'model and outside the translation tie (opaque node). Trusted: Lean kernel, the translator tools/gen_pyir_fm.py and '
              'the interpreter of Model/PyIRFm (diffed against CPython through the generated IR), the hand-written model of '
              'Python format specs (diffed), pygments/termcolor as external. Glue: trusted are tools/gen_pyir_cli.py, the interpreter '
              'Model/PyIRCli and click\'s parsing; the listing behind each map is a parameter of the *_lines_ir_eq_model theorems.')
TECHNIQUE = ('Lean 4 proof (source text of the builders -> IR by translation, IR interpreted = model; builders = join of enabled '
             'columns, by cases on the six switches) + differential correspondence (hand model and generated IR)')
