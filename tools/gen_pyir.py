"""Translator of the pairing state machine: pykdebugparser/traces_parser.py (pure `ast`, nothing is imported or run)
-> lean/KdVerif/Gen/PyIR.lean, one term of the IR of lean/KdVerif/Model/PyIR.lean per method
(`feed`, `parse_event_list`, `_feed_start_event`, `_feed_end_event`, `_feed_single_event`) plus the table
`self.qualifiers_actions` (qualifier value -> method; the values of `DgbFuncQual.X.value` are read from the enum's
class body in kevent.py).

The methods are SYMBOLICALLY EVALUATED into a normal form, so that harmless rewrites give the same term:
  * a local that merely names a pure path expression (`tid = event.tid`, `table = state[tid]`,
    `trace_name = self.trace_codes[event.eventid]`: built from parameters, attributes, subscripts, `self.<attr>`)
    is inlined.  Side conditions, checked: the path is not stored into / popped from / its variables are not
    rebound between the definition and a use (otherwise the use becomes `.unsupported`), and — because a subscript
    can raise — the statement that follows the definition must begin by evaluating the very same subscripts (otherwise
    the moment of the KeyError would move: `.unsupported`);
  * `x not in d` is `not (x in d)`; `not` / `or` / `and` in an `if` condition are resolved into nested `if`s;
  * the statements that follow an `if` are pushed into both of its branches (a branch that returns drops them);
    falling off the end of a method is `return None`;
  * variables are numbered: parameters (after `self`) first, then the remaining locals in source order of their
    first binding.
Everything else — any statement or expression outside the subset of Model/PyIR — becomes an explicit
`.unsupported "<source text>"` node (or an entry of `notes` when it is outside the method bodies): never a guess."""
import ast
import os

METHODS = [('feed', 'feed', '.feed'), ('parse_event_list', 'parseEventList', '.parseEventList'),
           ('_feed_start_event', 'feedStart', '.feedStart'), ('_feed_end_event', 'feedEnd', '.feedEnd'),
           ('_feed_single_event', 'feedSingle', '.feedSingle')]
METH_TAG = {py: tag for py, _f, tag in METHODS}
SELF_ATTRS = {'trace_codes': '.traceCodes', 'on_going_events': '.onGoingEvents', 'on_going_traces': '.onGoingTraces',
              'handlers': '.handlers'}
FIELDS = {'tid': '.tid', 'eventid': '.eventid', 'func_qualifier': '.funcQualifier'}
TRACE_HANDLERS_MODULE = 'pykdebugparser.trace_handlers.trace'


# ------------------------------------------------------------------------------------------------------------
# IR as Python tuples: expressions ('none',) ('int', n) ('var', name) ('field', e, f) ('selfAttr', a)
# ('traceHandlers',) ('isIn', x, d) ('index', d, k) ('getOrEmpty', d, k) ('not', e) ('or', a, b) ('and', a, b)
# ('list1', e) ('unsupported', src); statements as in Model/PyIR.Stmt.
# ------------------------------------------------------------------------------------------------------------

def subexprs(e):
    yield e
    for x in e[1:]:
        if isinstance(x, tuple):
            yield from subexprs(x)


def is_pure_path(e):
    """parameters / locals, attributes of them, subscripts, self.<attr>, integer literals: no effect, and its value does
    not change unless one of its containers is stored into or one of its variables is rebound."""
    k = e[0]
    if k in ('var', 'selfAttr', 'traceHandlers', 'int', 'addrs', 'uuids'):
        return True
    if k in ('field', 'csFrames') or k in CS_ATTR_READS:
        return is_pure_path(e[1])
    if k == 'index':
        return is_pure_path(e[1]) and is_pure_path(e[2])
    return False


CS_ATTR_READS = ('loadAddr', 'uuidOf', 'uuidMapA', 'ktraces', 'timestamp', 'tid')


def ops(e):
    """The operations of `e` that can raise (subscripts), in evaluation order, as far as they are evaluated
    unconditionally."""
    k = e[0]
    if k == 'index':
        return ops(e[1]) + ops(e[2]) + [e]
    if k in ('field', 'not', 'list1', 'isinstance', 'isNotNone'):
        return ops(e[1])
    if k == 'csFrames' or k in CS_ATTR_READS:       # an attribute read of a trace object: AttributeError when it is not there
        return ops(e[1]) + [e]
    if k in ('isIn', 'getOrEmpty', 'sub', 'gt'):
        return ops(e[1]) + ops(e[2])
    if k == 'bisect':
        return ops(e[1]) + ops(e[2]) + [e]
    if k in ('mkFrame', 'mkCallstack'):
        return ops(e[1]) + ops(e[2]) + ops(e[3])
    if k in ('or', 'and'):
        return ops(e[1])
    return []


def head_ops(s):
    """The subscripts a statement evaluates before anything else can happen."""
    k = s[0]
    if k in ('ret', 'yield'):
        return ops(s[1])
    if k == 'callFeed':
        return ops(s[2])
    if k == 'callInsert':
        return ops(s[1]) + ops(s[2])
    if k == 'retCall':
        c = s[1]
        if c[0] == 'self':
            return ops(c[2])
        if c[0] == 'action':
            return ops(c[1])
        return ops(c[1])
    if k == 'ite':
        return ops(s[1])
    if k == 'assign':
        return ops(s[2])
    if k in ('setNewDict', 'setNewList', 'append'):
        return ops(s[1]) + ops(s[2])
    if k in ('forKeys', 'forIn', 'appendVar'):
        return ops(s[2])
    if k == 'insert':
        return ops(s[1]) + ops(s[2]) + ops(s[3])
    if k == 'pop':
        return ops(s[2]) + ops(s[3])
    return []


class Env:
    def __init__(self, m=None):
        self.m = dict(m or {})

    def copy(self):
        return Env(self.m)

    def rebind(self, name):
        """`name` gets a new value: it is a variable from now on, and every alias that reads it is stale."""
        for k, v in list(self.m.items()):
            if k != name and any(x == ('var', name) for x in subexprs(v)):
                self.m[k] = ('unsupported', 'stale alias %s (its variable %s was rebound)' % (k, name))
        self.m[name] = ('var', name)

    def stored(self, container):
        """`container[...]` was assigned / popped: aliases reading through that container are stale."""
        for k, v in list(self.m.items()):
            if any(x[0] == 'index' and x[1] == container for x in subexprs(v)):
                self.m[k] = ('unsupported', 'stale alias %s (its container was stored into)' % k)


class MethodTranslator:
    def __init__(self, src, fn, module_names):
        self.src = src
        self.fn = fn
        self.module_names = module_names        # module-level name -> 'traceHandlers'
        self.notes = []
        self.order = []                          # locals in source order of first binding

    def text(self, node):
        t = ast.get_source_segment(self.src, node) or ast.dump(node)
        return ' '.join(t.split())[:200]

    # ---- expressions
    def expr(self, n, env):
        if isinstance(n, ast.Constant):
            if n.value is None:
                return ('none',)
            if isinstance(n.value, int) and not isinstance(n.value, bool) and n.value >= 0:
                return ('int', n.value)
            return ('unsupported', self.text(n))
        if isinstance(n, ast.Name):
            if n.id in env.m:
                return env.m[n.id]
            if self.module_names.get(n.id) == 'traceHandlers':
                return ('traceHandlers',)
            return ('unsupported', self.text(n))
        if isinstance(n, ast.Attribute):
            if isinstance(n.value, ast.Name) and n.value.id == 'self' and 'self' not in env.m:
                if n.attr in SELF_ATTRS:
                    return ('selfAttr', SELF_ATTRS[n.attr])
                return ('unsupported', self.text(n))
            if n.attr in FIELDS:
                return ('field', self.expr(n.value, env), FIELDS[n.attr])
            return ('unsupported', self.text(n))
        if isinstance(n, ast.Compare) and len(n.ops) == 1:
            a, b = self.expr(n.left, env), self.expr(n.comparators[0], env)
            if isinstance(n.ops[0], ast.In):
                return ('isIn', a, b)
            if isinstance(n.ops[0], ast.NotIn):
                return ('not', ('isIn', a, b))
            return ('unsupported', self.text(n))
        if isinstance(n, ast.Subscript) and not isinstance(n.slice, (ast.Slice, ast.Tuple)):
            return ('index', self.expr(n.value, env), self.expr(n.slice, env))
        if isinstance(n, ast.Call) and isinstance(n.func, ast.Attribute) and n.func.attr == 'get' and not n.keywords \
                and len(n.args) == 2 and isinstance(n.args[1], ast.Dict) and not n.args[1].keys:
            return ('getOrEmpty', self.expr(n.func.value, env), self.expr(n.args[0], env))
        if isinstance(n, ast.UnaryOp) and isinstance(n.op, ast.Not):
            return ('not', self.expr(n.operand, env))
        if isinstance(n, ast.BoolOp):
            vals = [self.expr(v, env) for v in n.values]
            out = vals[-1]
            for v in reversed(vals[:-1]):
                out = ('or' if isinstance(n.op, ast.Or) else 'and', v, out)
            return out
        if isinstance(n, ast.List) and len(n.elts) == 1 and not isinstance(n.elts[0], ast.Starred):
            return ('list1', self.expr(n.elts[0], env))
        return ('unsupported', self.text(n))

    def call(self, n, env):
        """`return <call>`: the three call shapes of the subset, else None."""
        if not isinstance(n, ast.Call) or n.keywords or any(isinstance(a, ast.Starred) for a in n.args):
            return None
        f = n.func
        if isinstance(f, ast.Attribute) and isinstance(f.value, ast.Name) and f.value.id == 'self' \
                and f.attr in METH_TAG and len(n.args) == 1:
            return ('self', METH_TAG[f.attr], self.expr(n.args[0], env))
        if isinstance(f, ast.Subscript) and isinstance(f.value, ast.Attribute) and isinstance(f.value.value, ast.Name) \
                and f.value.value.id == 'self' and not isinstance(f.slice, (ast.Slice, ast.Tuple)):
            if f.value.attr == 'qualifiers_actions' and len(n.args) == 2:
                return ('action', self.expr(f.slice, env), self.expr(n.args[0], env), self.expr(n.args[1], env))
            if f.value.attr == 'handlers' and len(n.args) == 2 and isinstance(n.args[0], ast.Name) \
                    and n.args[0].id == 'self':
                return ('handler', self.expr(f.slice, env), self.expr(n.args[1], env))
        return None

    # ---- statements
    def cond(self, c, env, then_fn, else_fn):
        if c[0] == 'not':
            return self.cond(c[1], env, else_fn, then_fn)
        if c[0] == 'or':
            return self.cond(c[1], env, then_fn, lambda e: self.cond(c[2], e, then_fn, else_fn))
        if c[0] == 'and':
            return self.cond(c[1], env, lambda e: self.cond(c[2], e, then_fn, else_fn), else_fn)
        return ('ite', c, then_fn(env.copy()), else_fn(env.copy()))

    def bind(self, name, env):
        if name not in self.order:
            self.order.append(name)
        env.rebind(name)

    def block(self, stmts, env, kont):
        """Translate `stmts` followed by whatever `kont(env)` gives (the rest of the enclosing block)."""
        if not stmts:
            return kont(env)
        st, rest = stmts[0], stmts[1:]
        nxt = lambda e: self.block(rest, e, kont)  # noqa: E731
        sp = self.special(st, env, nxt)
        if sp is not None:
            return sp
        if isinstance(st, ast.Pass) or (isinstance(st, ast.Expr) and isinstance(st.value, ast.Constant)
                                        and isinstance(st.value.value, str)):
            return nxt(env)
        if isinstance(st, ast.Return):
            if st.value is None:
                return ('ret', ('none',))
            c = self.call(st.value, env)
            if c is not None:
                return ('retCall', c)
            if isinstance(st.value, ast.Call):
                return ('unsupported', self.text(st))
            return ('ret', self.expr(st.value, env))
        if isinstance(st, ast.If):
            return self.cond(self.expr(st.test, env), env,
                             lambda e: self.block(st.body, e, nxt), lambda e: self.block(st.orelse, e, nxt))
        if isinstance(st, ast.For) and isinstance(st.target, ast.Name) and not st.orelse:
            it = self.expr(st.iter, env)
            benv = env.copy()
            self.bind(st.target.id, benv)
            body = self.block(st.body, benv, lambda e: ('done',))
            self.bind(st.target.id, env)
            return ('forKeys', st.target.id, it, body, nxt(env))
        if isinstance(st, ast.Expr) and isinstance(st.value, ast.Call) and isinstance(st.value.func, ast.Attribute) \
                and st.value.func.attr == 'append' and len(st.value.args) == 1 and not st.value.keywords:
            lst, x = self.expr(st.value.func.value, env), self.expr(st.value.args[0], env)
            return ('append', lst, x, nxt(env))
        if isinstance(st, ast.Assign) and len(st.targets) == 1:
            t, v = st.targets[0], st.value
            if isinstance(t, ast.Subscript) and not isinstance(t.slice, (ast.Slice, ast.Tuple)):
                kind = ('setNewDict' if isinstance(v, ast.Dict) and not v.keys else
                        'setNewList' if isinstance(v, ast.List) and not v.elts else None)
                if kind:
                    d, k = self.expr(t.value, env), self.expr(t.slice, env)
                    env.stored(d)
                    return (kind, d, k, nxt(env))
            if isinstance(t, ast.Name) and t.id != 'self':
                if isinstance(v, ast.Call) and isinstance(v.func, ast.Attribute) and v.func.attr == 'pop' \
                        and len(v.args) == 1 and not v.keywords:
                    d, k = self.expr(v.func.value, env), self.expr(v.args[0], env)
                    env.stored(d)
                    self.bind(t.id, env)
                    return ('pop', t.id, d, k, nxt(env))
                e = self.expr(v, env)
                if is_pure_path(e) and t.id not in [a.arg for a in self.fn.args.args]:
                    # a local alias: inlined.  Evaluating it here must not move an exception.
                    env.m[t.id] = e
                    for k_, v_ in list(env.m.items()):      # a re-used alias name: older aliases through it are stale
                        if k_ != t.id and any(x == ('var', t.id) for x in subexprs(v_)):
                            env.m[k_] = ('unsupported', 'stale alias ' + k_)
                    follow = nxt(env)
                    need = ops(e)
                    if need and head_ops(follow)[:len(need)] != need:
                        return ('unsupported', self.text(st) + '   # may raise before its first use')
                    return follow
                self.bind(t.id, env)
                return ('assign', t.id, e, nxt(env))
        return ('unsupported', self.text(st))

    def special(self, st, env, nxt):
        """statement forms of a subclass's subset (None: not one of them)"""
        return None

    def finish(self, params, body):
        used = {x[1] for x in _walk_vars(body)}
        names = params + [n for n in self.order if n in used and n not in params]
        return len(params), _rename(body, {n: i for i, n in enumerate(names)})

    def translate(self):
        a = self.fn.args
        if (self.fn.decorator_list or a.vararg or a.kwarg or a.kwonlyargs or a.defaults or a.posonlyargs
                or not a.args or a.args[0].arg != 'self'):
            return 0, ('unsupported', 'signature of ' + self.fn.name)
        params = [x.arg for x in a.args[1:]]
        env = Env({p: ('var', p) for p in params})
        body = self.block(self.fn.body, env, lambda e: ('ret', ('none',)))
        return self.finish(params, body)


BINDERS = ('assign', 'forKeys', 'pop', 'assignNewList', 'forIn', 'appendVar', 'callFeed')


def _walk_vars(s):
    """all ('var', name) nodes and binder names of a statement tree"""
    if not isinstance(s, tuple):
        return
    if s[0] == 'var':
        yield s
        return
    if s[0] in BINDERS:
        yield ('var', s[1])
    for x in s[1:]:
        if isinstance(x, tuple):
            yield from _walk_vars(x)


def _rename(s, num):
    if not isinstance(s, tuple):
        return s
    if s[0] == 'var':
        return ('var', num[s[1]])
    if s[0] in BINDERS:
        return (s[0], num[s[1]]) + tuple(_rename(x, num) for x in s[2:])
    if s[0] == 'unsupported':
        return s
    return (s[0],) + tuple(_rename(x, num) for x in s[1:])


# ------------------------------------------------------------------------------------------------------------
# Lean syntax
# ------------------------------------------------------------------------------------------------------------

def lean(s, lean_str):
    k = s[0]
    if k == 'unsupported':
        return '(.unsupported %s)' % lean_str(s[1])
    if k in ('none', 'traceHandlers', 'done', 'addrs', 'uuids'):
        return '.' + k
    parts = []
    for x in s[1:]:
        if isinstance(x, tuple):
            parts.append(lean(x, lean_str))
        elif isinstance(x, int) and x < 0:
            parts.append('(%d)' % x)
        else:
            parts.append(str(x))
    return '(.%s %s)' % ({'appendVar': 'append'}.get(k, k), ' '.join(parts))


def has_unsupported(s):
    return isinstance(s, tuple) and (s[0] == 'unsupported' or any(has_unsupported(x) for x in s[1:]))


# ------------------------------------------------------------------------------------------------------------

def enum_values(kevent_src, cls_name):
    """NAME -> int of `class <cls_name>(enum.Enum)` read from the class body."""
    for node in ast.parse(kevent_src).body:
        if isinstance(node, ast.ClassDef) and node.name == cls_name:
            out = {}
            for st in node.body:
                if isinstance(st, ast.Assign) and len(st.targets) == 1 and isinstance(st.targets[0], ast.Name) \
                        and isinstance(st.value, ast.Constant) and isinstance(st.value.value, int):
                    out[st.targets[0].id] = st.value.value
            return out
    return {}


# ------------------------------------------------------------------------------------------------------------
# TracesParser.feed_generator and TracesParser.__init__ (IR of Model/PyIRTp)
# ------------------------------------------------------------------------------------------------------------

FAMILIES = ['bsd', 'dyld', 'fsystem', 'mach', 'perf', 'trace', 'turnstile']      # = tools/gen_decoders.FAMILIES (Decoder.family)
FAMILY_PACKAGE = 'pykdebugparser.trace_handlers.'
# the attributes `__init__` binds, in the order of the normal form (Model/PyIRTp.IAttr)
INIT_ATTRS = ['trace_codes', 'on_going_events', 'on_going_traces', 'global_strings', 'threads_pids', 'pids_names',
              'tids_names', 'last_data_newthread', 'last_data_exec', 'handlers']
INIT_TAG = {'trace_codes': '.traceCodes', 'on_going_events': '.onGoingEvents', 'on_going_traces': '.onGoingTraces',
            'global_strings': '.globalStrings', 'threads_pids': '.threadsPids', 'pids_names': '.pidsNames',
            'tids_names': '.tidsNames', 'last_data_newthread': '.lastDataNewthread', 'last_data_exec': '.lastDataExec',
            'handlers': '.handlers'}
OWN_ATTRS = tuple(INIT_ATTRS) + ('qualifiers_actions', 'feed', 'feed_generator', 'parse_event_list', '_feed_start_event',
                                 '_feed_end_event', '_feed_single_event')


class GenTranslator(MethodTranslator):
    """The same symbolic evaluation (aliases inlined, `not` swaps the branches, continuations) over the subset of
    Model/PyIRTp.GStmt: `for v in <var>`, `v = self.feed(<var>)`, `if <x> is [not] None`, `yield <var>`."""

    def expr(self, n, env):
        if isinstance(n, ast.Constant) and n.value is None:
            return ('none',)
        if isinstance(n, ast.Name):
            return env.m.get(n.id, ('unsupported', self.text(n)))
        if isinstance(n, ast.Compare) and len(n.ops) == 1 and isinstance(n.ops[0], (ast.IsNot, ast.Is)) \
                and isinstance(n.comparators[0], ast.Constant) and n.comparators[0].value is None:
            a = self.expr(n.left, env)
            return ('isNotNone', a) if isinstance(n.ops[0], ast.IsNot) else ('not', ('isNotNone', a))
        if isinstance(n, ast.UnaryOp) and isinstance(n.op, ast.Not):
            return ('not', self.expr(n.operand, env))
        return ('unsupported', self.text(n))

    def call(self, n, env):
        return None

    def cond(self, c, env, then_fn, else_fn):
        if c[0] == 'not':
            return self.cond(c[1], env, else_fn, then_fn)
        if c[0] != 'isNotNone':            # the truth value of a trace object is not modelled
            c = ('unsupported', 'condition outside the subset: ' + (c[1] if c[0] == 'unsupported' else str(c[0])))
        return ('ite', c, then_fn(env.copy()), else_fn(env.copy()))

    def special(self, st, env, nxt):
        if isinstance(st, ast.Expr) and isinstance(st.value, ast.Yield):
            if st.value.value is None:
                return ('unsupported', self.text(st))
            return ('yield', self.expr(st.value.value, env), nxt(env))
        if isinstance(st, ast.Assign) and len(st.targets) == 1 and isinstance(st.targets[0], ast.Name) \
                and st.targets[0].id != 'self' and isinstance(st.value, ast.Call):
            c = st.value
            if isinstance(c.func, ast.Attribute) and isinstance(c.func.value, ast.Name) and c.func.value.id == 'self' \
                    and 'self' not in env.m and c.func.attr == 'feed' and len(c.args) == 1 and not c.keywords \
                    and not isinstance(c.args[0], ast.Starred):
                a = self.expr(c.args[0], env)
                self.bind(st.targets[0].id, env)
                return ('callFeed', st.targets[0].id, a, nxt(env))
            return ('unsupported', self.text(st))
        if isinstance(st, ast.For):
            if not (isinstance(st.target, ast.Name) and not st.orelse):
                return ('unsupported', self.text(st))
            it = self.expr(st.iter, env)
            benv = env.copy()
            self.bind(st.target.id, benv)
            body = self.block(st.body, benv, lambda e: ('done',))
            self.bind(st.target.id, env)
            return ('forIn', st.target.id, it, body, nxt(env))
        if isinstance(st, (ast.Return, ast.Expr)) and not (isinstance(st, ast.Expr) and isinstance(st.value, ast.Constant)):
            return ('unsupported', self.text(st))
        return None


_G_STMT = {'done', 'forIn', 'callFeed', 'ite', 'yield', 'unsupported'}
_G_EXPR = {'none', 'var', 'isNotNone', 'unsupported'}


def _g_sanitize(s, stmt=True):
    """nodes the generator IR does not have (a statement / expression of the pairing subset)"""
    if not isinstance(s, tuple):
        return s
    if s[0] == 'unsupported':
        return s
    if stmt:
        if s[0] not in _G_STMT:
            return ('unsupported', 'outside the generator subset: ' + s[0])
        if s[0] == 'forIn':
            return (s[0], s[1], _g_sanitize(s[2], False), _g_sanitize(s[3]), _g_sanitize(s[4]))
        if s[0] == 'callFeed':
            return (s[0], s[1], _g_sanitize(s[2], False), _g_sanitize(s[3]))
        if s[0] == 'ite':
            return (s[0], _g_sanitize(s[1], False), _g_sanitize(s[2]), _g_sanitize(s[3]))
        if s[0] == 'yield':
            return (s[0], _g_sanitize(s[1], False), _g_sanitize(s[2]))
        return s
    if s[0] not in _G_EXPR:
        return ('unsupported', 'outside the generator subset: ' + s[0])
    return (s[0],) + tuple(_g_sanitize(x, False) for x in s[1:])


def translate_feed_generator(src, fn):
    """`TracesParser.feed_generator` -> (params, body) over Model/PyIRTp.GStmt"""
    if fn is None:
        return 0, ('unsupported', 'method feed_generator not found')
    a = fn.args
    if (fn.decorator_list or a.vararg or a.kwarg or a.kwonlyargs or a.defaults or a.posonlyargs
            or not a.args or a.args[0].arg != 'self' or isinstance(fn, ast.AsyncFunctionDef)):
        return 0, ('unsupported', 'signature of feed_generator')
    mt = GenTranslator(src, fn, {})
    params = [x.arg for x in a.args[1:]]
    body = mt.block(fn.body, Env({p_: ('var', p_) for p_ in params}), lambda e: ('done',))
    p, b = mt.finish(params, body)
    return p, _g_sanitize(b)


def family_imports(tree, notes):
    """module-level names bound by `from pykdebugparser.trace_handlers.<family> import handlers [as name]` -> family; a name
    bound again later is dropped (and noted)"""
    names = {}
    for node in tree.body:
        if isinstance(node, ast.ImportFrom) and node.level == 0 and (node.module or '').startswith(FAMILY_PACKAGE) \
                and node.module[len(FAMILY_PACKAGE):] in FAMILIES:
            for al in node.names:
                bound = al.asname or al.name
                if al.name == 'handlers':
                    if bound in names:
                        notes.append('module-level name %s is bound twice' % bound)
                    names[bound] = node.module[len(FAMILY_PACKAGE):]
                elif bound in names:
                    notes.append('module-level name %s is rebound' % bound)
                    del names[bound]
            continue
        bound = []
        if isinstance(node, (ast.Import, ast.ImportFrom)):
            bound = [(al.asname or al.name).split('.')[0] for al in node.names]
        elif isinstance(node, (ast.FunctionDef, ast.AsyncFunctionDef, ast.ClassDef)):
            bound = [node.name]
        else:
            bound = [t.id for t in ast.walk(node) if isinstance(t, ast.Name) and isinstance(t.ctx, (ast.Store, ast.Del))]
        for b in bound:
            if b in names:
                notes.append('module-level name %s is rebound' % b)
                del names[b]
    return names


def translate_tp_init(src, tree, fn, notes):
    """`TracesParser.__init__` -> (params, [(attr tag, value)] sorted by attribute, [family] in source order).
    value: ('param', k) | ('emptyDict',) | ('unsupported', text)."""
    text = lambda n: ' '.join((ast.get_source_segment(src, n) or ast.dump(n)).split())[:200]   # noqa: E731
    if fn is None:
        notes.append('TracesParser.__init__ not found')
        return 0, [], []
    a = fn.args
    if fn.decorator_list or a.vararg or a.kwarg or a.kwonlyargs or a.defaults or a.posonlyargs or not a.args \
            or a.args[0].arg != 'self':
        notes.append('signature of TracesParser.__init__')
        return 0, [], []
    params = [x.arg for x in a.args[1:]]
    fams = family_imports(tree, notes)
    shadowed = set(params) | {n.id for n in ast.walk(tree) if isinstance(n, ast.Name) and isinstance(n.ctx, ast.Store)} \
        | {n.name for n in ast.walk(tree) if isinstance(n, (ast.FunctionDef, ast.ClassDef))}
    sets, updates = [], []
    handlers_made = False
    for st in _first_docless(fn.body):
        if isinstance(st, ast.Assign) and len(st.targets) == 1 and _self_attr(st.targets[0], ('qualifiers_actions',)):
            continue                                      # the dict display: `actions`
        if isinstance(st, ast.Assign) and len(st.targets) == 1 and _self_attr(st.targets[0], INIT_ATTRS):
            attr, v = st.targets[0].attr, st.value
            if isinstance(v, ast.Name) and v.id in params:
                val = ('param', params.index(v.id))
            elif (isinstance(v, ast.Dict) and not v.keys) or (
                    isinstance(v, ast.Call) and isinstance(v.func, ast.Name) and v.func.id == 'dict'
                    and 'dict' not in shadowed and not v.args and not v.keywords):
                val = ('emptyDict',)
            else:
                val = ('unsupported', text(v))
            if any(s_[0] == attr for s_ in sets):
                notes.append('__init__: self.%s is assigned twice' % attr)
            if attr == 'handlers':
                if updates:
                    notes.append('__init__: self.handlers is assigned after an update')
                handlers_made = val == ('emptyDict',)
            sets.append((attr, val))
            continue
        if isinstance(st, ast.Expr) and isinstance(st.value, ast.Call) and isinstance(st.value.func, ast.Attribute) \
                and st.value.func.attr == 'update' and _self_attr(st.value.func.value, ('handlers',)) \
                and len(st.value.args) == 1 and not st.value.keywords and isinstance(st.value.args[0], ast.Name) \
                and st.value.args[0].id in fams and st.value.args[0].id not in params:
            if not handlers_made:
                notes.append('__init__: %s before self.handlers = {}' % text(st))
            updates.append(fams[st.value.args[0].id])
            continue
        notes.append('__init__: ' + text(st))
    for n in ast.walk(fn):                                # a parameter rebound inside the body is not the caller's object
        if isinstance(n, ast.Name) and isinstance(n.ctx, (ast.Store, ast.Del)) and n.id in params + ['self']:
            notes.append('__init__: parameter %s is rebound' % n.id)
    sets.sort(key=lambda s_: INIT_ATTRS.index(s_[0]))     # independent of each other: the order is not part of the term
    return len(params), [(INIT_TAG[a_], v) for a_, v in sets], updates


def translate_source(repo):
    """-> (methods: {lean field: (params, body)}, actions: [(value, tag)], notes: [str],
           init: (params, [(attr, value)], [family]), feed_generator: (params, body))"""
    with open(os.path.join(repo, 'pykdebugparser', 'traces_parser.py')) as fd:
        src = fd.read()
    with open(os.path.join(repo, 'pykdebugparser', 'kevent.py')) as fd:
        ksrc = fd.read()
    tree = ast.parse(src)
    notes = []
    module_names = {}
    enum_ok = False
    for node in tree.body:
        if isinstance(node, ast.ImportFrom):
            for al in node.names:
                if node.module == TRACE_HANDLERS_MODULE and al.name == 'handlers' and node.level == 0:
                    module_names[al.asname or al.name] = 'traceHandlers'
                if node.module == 'pykdebugparser.kevent' and al.name == 'DgbFuncQual' and al.asname is None:
                    enum_ok = True
        elif isinstance(node, (ast.Assign, ast.AugAssign, ast.AnnAssign, ast.FunctionDef)):
            for t in ast.walk(node):
                if isinstance(t, ast.Name) and isinstance(t.ctx, ast.Store) and t.id in module_names:
                    notes.append('module-level name %s is rebound' % t.id)
    cls = next((n for n in tree.body if isinstance(n, ast.ClassDef) and n.name == 'TracesParser'), None)
    methods, actions = {}, []
    if cls is None:
        notes.append('class TracesParser not found')
        cls_body = []
    else:
        cls_body = cls.body
        if cls.bases or cls.decorator_list or cls.keywords:
            notes.append('class TracesParser has bases / decorators')
    fns = {}
    for n in cls_body:
        if isinstance(n, ast.FunctionDef):
            if n.name in fns:
                notes.append('method %s defined twice' % n.name)
            fns[n.name] = n
    for py, field, _tag in METHODS:
        if py not in fns:
            methods[field] = (0, ('unsupported', 'method %s not found' % py))
            continue
        mt = MethodTranslator(src, fns[py], module_names)
        methods[field] = mt.translate()
    # __init__: the attribute initialisers and the handler registry (`init`), the qualifiers_actions dict (`actions`)
    init = fns.get('__init__')
    table = None
    if init is not None:
        for st in ast.walk(init):
            if isinstance(st, ast.Assign) and len(st.targets) == 1 and _self_attr(st.targets[0], ('qualifiers_actions',)):
                if table is not None:
                    notes.append('__init__: self.qualifiers_actions assigned twice')
                table = st.value
    init_def = translate_tp_init(src, tree, init, notes)
    feed_gen = translate_feed_generator(src, fns.get('feed_generator'))
    quals = enum_values(ksrc, 'DgbFuncQual') if enum_ok else {}
    if not enum_ok:
        notes.append('DgbFuncQual is not imported from pykdebugparser.kevent')
    if not isinstance(table, ast.Dict):
        notes.append('__init__: self.qualifiers_actions is not a dict display')
    else:
        d = {}
        for k, v in zip(table.keys, table.values):
            kv = None
            if isinstance(k, ast.Attribute) and k.attr == 'value' and isinstance(k.value, ast.Attribute) \
                    and isinstance(k.value.value, ast.Name) and k.value.value.id == 'DgbFuncQual':
                kv = quals.get(k.value.attr)
            elif isinstance(k, ast.Constant) and isinstance(k.value, int) and not isinstance(k.value, bool):
                kv = k.value
            mv = None
            if isinstance(v, ast.Attribute) and isinstance(v.value, ast.Name) and v.value.id == 'self':
                mv = METH_TAG.get(v.attr)
            if kv is None or kv < 0 or mv is None:
                notes.append('qualifiers_actions entry not understood: %s'
                             % ' '.join((ast.get_source_segment(src, k) or '?').split()))
                continue
            d[kv] = mv              # a repeated key: the last value wins, the first position stays (Python dict display)
        actions = list(d.items())
    # any other store to the attributes the methods read, anywhere in the class
    for n in ast.walk(cls) if cls is not None else []:
        if isinstance(n, ast.Attribute) and isinstance(n.ctx, (ast.Store, ast.Del)) and isinstance(n.value, ast.Name) \
                and n.value.id == 'self' and n.attr in OWN_ATTRS \
                and not (init is not None and any(n is x for x in ast.walk(init))):
            notes.append('self.%s is assigned outside __init__' % n.attr)
    for n in cls_body:                          # a hook that would give attribute stores / reads another meaning
        if isinstance(n, ast.FunctionDef) and n.name in ('__getattr__', '__getattribute__', '__setattr__', '__new__',
                                                         '__init_subclass__', '__iter__'):
            notes.append('TracesParser.%s: an attribute / construction hook' % n.name)
    return methods, actions, notes, init_def, feed_gen


# ------------------------------------------------------------------------------------------------------------
# callstacks_parser.py: `insert_image` and the frame loop of `feed_generator` (IR of Model/PyIRCs)
# ------------------------------------------------------------------------------------------------------------

CS_EXPR_KINDS = {'none', 'int', 'var', 'addrs', 'uuids', 'csFrames', 'bisect', 'sub', 'gt', 'isIn', 'index', 'mkFrame',
                 'isinstance', 'isNotNone', 'and', 'loadAddr', 'uuidOf', 'uuidMapA', 'ktraces', 'timestamp', 'tid',
                 'mkCallstack', 'unsupported'}
CS_ATTRS = {'dyld_addresses': ('addrs',), 'dyld_uuids': ('uuids',)}
CS_OBJ_ATTRS = {'cs_frames': 'csFrames', 'load_addr': 'loadAddr', 'uuid': 'uuidOf', 'uuid_map_a': 'uuidMapA',
                'ktraces': 'ktraces', 'timestamp': 'timestamp', 'tid': 'tid'}
# the classes `feed_generator` may test with isinstance: name -> (module it must be imported from, constructor of Cls)
CS_CLASSES = {'PerfEvent': ('pykdebugparser.trace_handlers.perf', '.perfEvent'),
              'DyldUuidMapA': ('pykdebugparser.trace_handlers.dyld', '.dyldUuidMapA'),
              'DyldLaunchExecutable': ('pykdebugparser.trace_handlers.dyld', '.dyldLaunchExecutable')}


class CsTranslator(MethodTranslator):
    """The same symbolic evaluation (aliases, conditions, continuations) over the subset of Model/PyIRCs."""

    def __init__(self, src, fn, names):
        super().__init__(src, fn, {})
        self.names = names          # module-level names understood: {'bisect': 'bisect', 'Frame': 'mkFrame'}

    def expr(self, n, env):
        if isinstance(n, ast.Constant):
            if n.value is None:
                return ('none',)
            if isinstance(n.value, int) and not isinstance(n.value, bool):
                return ('int', n.value)
            return ('unsupported', self.text(n))
        if isinstance(n, ast.UnaryOp) and isinstance(n.op, ast.USub) and isinstance(n.operand, ast.Constant) \
                and isinstance(n.operand.value, int) and not isinstance(n.operand.value, bool):
            return ('int', -n.operand.value)
        if isinstance(n, ast.Name):
            return env.m.get(n.id, ('unsupported', self.text(n)))
        if isinstance(n, ast.Attribute):
            if isinstance(n.value, ast.Name) and n.value.id == 'self' and 'self' not in env.m:
                return CS_ATTRS.get(n.attr, ('unsupported', self.text(n)))
            if n.attr in CS_OBJ_ATTRS:
                return (CS_OBJ_ATTRS[n.attr], self.expr(n.value, env))
            return ('unsupported', self.text(n))
        if isinstance(n, ast.Call) and isinstance(n.func, ast.Name) and not n.keywords \
                and not any(isinstance(a, ast.Starred) for a in n.args) and n.func.id not in env.m:
            kind = self.names.get(n.func.id)
            if kind == 'bisect' and len(n.args) == 2:
                return ('bisect', self.expr(n.args[0], env), self.expr(n.args[1], env))
            if kind in ('mkFrame', 'mkCallstack') and len(n.args) == 3:
                return (kind,) + tuple(self.expr(a, env) for a in n.args)
            if n.func.id == 'isinstance' and 'isinstance' not in self.names and len(n.args) == 2 \
                    and isinstance(n.args[1], ast.Name) and n.args[1].id not in env.m \
                    and str(self.names.get(n.args[1].id, '')).startswith('cls:'):
                return ('isinstance', self.expr(n.args[0], env), self.names[n.args[1].id][4:])
            return ('unsupported', self.text(n))
        if isinstance(n, ast.BinOp) and isinstance(n.op, ast.Sub):
            return ('sub', self.expr(n.left, env), self.expr(n.right, env))
        if isinstance(n, ast.Compare) and len(n.ops) == 1:
            a, b = self.expr(n.left, env), self.expr(n.comparators[0], env)
            if isinstance(n.ops[0], ast.Gt):
                return ('gt', a, b)
            if isinstance(n.ops[0], ast.Lt):
                return ('gt', b, a) if not ops(a) and not ops(b) else ('unsupported', self.text(n))
            if isinstance(n.ops[0], ast.In):
                return ('isIn', a, b)
            if isinstance(n.ops[0], ast.NotIn):
                return ('not', ('isIn', a, b))
            if isinstance(n.ops[0], (ast.IsNot, ast.Is)) and b == ('none',):      # `x is not None` / `x is None`
                return ('isNotNone', a) if isinstance(n.ops[0], ast.IsNot) else ('not', ('isNotNone', a))
            return ('unsupported', self.text(n))
        if isinstance(n, ast.Subscript) and not isinstance(n.slice, (ast.Slice, ast.Tuple)):
            return ('index', self.expr(n.value, env), self.expr(n.slice, env))
        if isinstance(n, ast.UnaryOp) and isinstance(n.op, ast.Not):
            return ('not', self.expr(n.operand, env))
        if isinstance(n, ast.BoolOp):
            vals = [self.expr(v, env) for v in n.values]
            out = vals[-1]
            for v in reversed(vals[:-1]):
                out = ('or' if isinstance(n.op, ast.Or) else 'and', v, out)
            return out
        return ('unsupported', self.text(n))

    def call(self, n, env):
        return None

    def cond(self, c, env, then_fn, else_fn):
        """`a and b` stays ONE condition (the IR has `and`: left to right, as written); `not` swaps the branches."""
        if c[0] == 'not':
            return self.cond(c[1], env, else_fn, then_fn)
        return ('ite', c, then_fn(env.copy()), else_fn(env.copy()))

    def special(self, st, env, nxt):
        if isinstance(st, ast.Assign) and len(st.targets) == 1 and isinstance(st.targets[0], ast.Name) \
                and isinstance(st.value, ast.List) and not st.value.elts and st.targets[0].id != 'self':
            self.bind(st.targets[0].id, env)
            return ('assignNewList', st.targets[0].id, nxt(env))
        if isinstance(st, ast.Assign) and len(st.targets) == 1 and isinstance(st.targets[0], ast.Subscript):
            return ('unsupported', self.text(st))
        if isinstance(st, ast.Return) and isinstance(st.value, ast.Call):
            return ('ret', self.expr(st.value, env))
        if isinstance(st, ast.Expr) and isinstance(st.value, ast.Yield):
            if st.value.value is None:
                return ('unsupported', self.text(st))
            return ('yield', self.expr(st.value.value, env), nxt(env))
        if isinstance(st, ast.Expr) and isinstance(st.value, ast.Call) and isinstance(st.value.func, ast.Attribute) \
                and isinstance(st.value.func.value, ast.Name) and st.value.func.value.id == 'self' and 'self' not in env.m \
                and st.value.func.attr == 'insert_image' and self.names.get('self.insert_image') == 'callInsert':
            c = st.value
            if c.keywords or len(c.args) != 2 or any(isinstance(a, ast.Starred) for a in c.args):
                return ('unsupported', self.text(st))
            a, u = self.expr(c.args[0], env), self.expr(c.args[1], env)
            for lst in (('addrs',), ('uuids',)):            # the callee stores into both lists
                env.stored(lst)
                for k_, v_ in list(env.m.items()):
                    if v_ != ('var', k_) and v_ != lst and any(y == lst for y in subexprs(v_)):
                        env.m[k_] = ('unsupported', 'stale alias ' + k_)
            return ('callInsert', a, u, nxt(env))
        if isinstance(st, ast.For):
            if not (isinstance(st.target, ast.Name) and not st.orelse):
                return ('unsupported', self.text(st))
            it = self.expr(st.iter, env)
            benv = env.copy()
            self.bind(st.target.id, benv)
            body = self.block(st.body, benv, lambda e: ('done',))
            self.bind(st.target.id, env)
            return ('forIn', st.target.id, it, body, nxt(env))
        if isinstance(st, ast.Expr) and isinstance(st.value, ast.Call) and isinstance(st.value.func, ast.Attribute) \
                and not st.value.keywords and not any(isinstance(a, ast.Starred) for a in st.value.args):
            f, args = st.value.func, st.value.args
            if f.attr == 'insert' and len(args) == 2:
                lst = self.expr(f.value, env)
                i, x = self.expr(args[0], env), self.expr(args[1], env)
                env.stored(lst)
                for k_, v_ in list(env.m.items()):          # an alias of an element of the list is stale now (the list itself is not)
                    if v_ != ('var', k_) and v_ != lst and any(y == lst for y in subexprs(v_)):
                        env.m[k_] = ('unsupported', 'stale alias ' + k_)
                return ('insert', lst, i, x, nxt(env))
            if f.attr == 'append' and len(args) == 1 and isinstance(f.value, ast.Name) \
                    and env.m.get(f.value.id) == ('var', f.value.id):
                return ('appendVar', f.value.id, self.expr(args[0], env), nxt(env))
            return ('unsupported', self.text(st))
        return None


def _cs_sanitize(s):
    """expression nodes the callstack IR does not have (a `not`/`or`/`and` outside an `if` condition, a PyIR-only node)"""
    if not isinstance(s, tuple):
        return s
    if s[0] in ('not', 'or', 'field', 'selfAttr', 'traceHandlers', 'getOrEmpty', 'list1', 'retCall', 'pop',
                'setNewDict', 'setNewList', 'forKeys'):
        return ('unsupported', 'outside the callstack subset: ' + s[0])
    if s[0] == 'append':
        return ('unsupported', 'append to something that is not a local list')
    if s[0] == 'unsupported':
        return s
    return (s[0],) + tuple(_cs_sanitize(x) for x in s[1:])


def _first_docless(body):
    """a function body without its docstring / `pass`"""
    return [st for st in body
            if not isinstance(st, ast.Pass)
            and not (isinstance(st, ast.Expr) and isinstance(st.value, ast.Constant) and isinstance(st.value.value, str))]


def _self_attr(n, attrs):
    """`self.<attr>` with attr in attrs -> attr, else None"""
    if isinstance(n, ast.Attribute) and isinstance(n.value, ast.Name) and n.value.id == 'self' and n.attr in attrs:
        return n.attr
    return None


def translate_init(src, cls, notes):
    """`CallstacksParser.__init__`: -> (params, [(attr constructor, parameter index)])"""
    text = lambda n: ' '.join((ast.get_source_segment(src, n) or ast.dump(n)).split())[:200]   # noqa: E731
    fn = next((n for n in cls.body if isinstance(n, ast.FunctionDef) and n.name == '__init__'), None)
    if fn is None:
        notes.append('CallstacksParser.__init__ not found')
        return 0, []
    a = fn.args
    if fn.decorator_list or a.vararg or a.kwarg or a.kwonlyargs or a.defaults or a.posonlyargs or not a.args \
            or a.args[0].arg != 'self':
        notes.append('signature of CallstacksParser.__init__')
        return 0, []
    params = [x.arg for x in a.args[1:]]
    sets = []
    for st in _first_docless(fn.body):
        attr = None
        if isinstance(st, ast.Assign) and len(st.targets) == 1:
            attr = _self_attr(st.targets[0], ('dyld_addresses', 'dyld_uuids'))
        if attr is None or not isinstance(st.value, ast.Name) or st.value.id not in params:
            notes.append('CallstacksParser.__init__: ' + text(st))
            continue
        sets.append(('.dyldAddresses' if attr == 'dyld_addresses' else '.dyldUuids', params.index(st.value.id)))
    return len(params), sets


REQ_LISTS = {'dyld_addresses': '.objAddrs', 'dyld_uuids': '.objUuids'}


def translate_request(repo, notes):
    """`PyKdebugParser.callstacks` of pykdebugparser.py -> (params, [default exprs], body) over Model/PyIRCs.ReqStmt"""
    with open(os.path.join(repo, 'pykdebugparser', 'pykdebugparser.py')) as fd:
        src = fd.read()
    tree = ast.parse(src)
    text = lambda n: ' '.join((ast.get_source_segment(src, n) or ast.dump(n)).split())[:200]   # noqa: E731
    ctor = set()                      # module-level names that ARE callstacks_parser.CallstacksParser
    for node in tree.body:
        if isinstance(node, ast.ImportFrom) and node.module == 'pykdebugparser.callstacks_parser' and node.level == 0:
            for al in node.names:
                if al.name == 'CallstacksParser':
                    ctor.add(al.asname or al.name)
        else:
            for n in ast.walk(node) if not isinstance(node, (ast.ClassDef, ast.FunctionDef)) else []:
                if isinstance(n, ast.Name) and isinstance(n.ctx, (ast.Store, ast.Del)):
                    ctor.discard(n.id)
            if isinstance(node, (ast.ClassDef, ast.FunctionDef)):
                ctor.discard(node.name)
    cls = next((n for n in tree.body if isinstance(n, ast.ClassDef) and n.name == 'PyKdebugParser'), None)
    fn = next((n for n in (cls.body if cls else []) if isinstance(n, ast.FunctionDef) and n.name == 'callstacks'), None)
    if fn is None:
        return 0, [], ('unsupported', 'method PyKdebugParser.callstacks not found')
    # the two attributes are two separate list objects made in __init__, and nothing else rebinds them
    init = next((n for n in cls.body if isinstance(n, ast.FunctionDef) and n.name == '__init__'), None)
    made = {}
    for st in (init.body if init else []):
        if isinstance(st, ast.Assign) and len(st.targets) == 1 and _self_attr(st.targets[0], REQ_LISTS) \
                and isinstance(st.value, ast.List) and not st.value.elts:
            made[st.targets[0].attr] = made.get(st.targets[0].attr, 0) + 1
    for attr in REQ_LISTS:
        if made.get(attr) != 1:
            notes.append('PyKdebugParser.__init__ does not make self.%s one fresh empty list' % attr)
    for n in ast.walk(cls):
        if isinstance(n, ast.Attribute) and isinstance(n.ctx, (ast.Store, ast.Del)) and _self_attr(n, REQ_LISTS):
            ok = init is not None and any(isinstance(st, ast.Assign) and len(st.targets) == 1 and st.targets[0] is n
                                          and isinstance(st.value, ast.List) and not st.value.elts for st in init.body)
            if not ok:
                notes.append('self.%s is rebound (line %d)' % (n.attr, n.lineno))
    a = fn.args
    if fn.decorator_list or a.vararg or a.kwarg or a.kwonlyargs or a.posonlyargs or not a.args or a.args[0].arg != 'self':
        return 0, [], ('unsupported', 'signature of callstacks')
    params = [x.arg for x in a.args[1:]]
    defaults = []
    for d in a.defaults:
        defaults.append(('none',) if isinstance(d, ast.Constant) and d.value is None else ('unsupported', text(d)))
    order = list(params)

    def listref(n):
        at = _self_attr(n, REQ_LISTS)
        return REQ_LISTS[at] if at else None

    def new_parser(call):
        """`CallstacksParser(<list>, <list>)` -> (a, b) or None"""
        if isinstance(call, ast.Call) and isinstance(call.func, ast.Name) and call.func.id in ctor \
                and call.func.id not in order and not call.keywords and len(call.args) == 2:
            ab = [listref(x) for x in call.args]
            if None not in ab:
                return ab
        return None

    def go(stmts, parsers):
        """parsers: locals that hold a CallstacksParser made in this body"""
        if not stmts:
            return ('unsupported', 'callstacks() falls off its end')
        st, rest = stmts[0], stmts[1:]
        if isinstance(st, ast.Expr) and isinstance(st.value, ast.Call) and isinstance(st.value.func, ast.Attribute) \
                and st.value.func.attr == 'clear' and not st.value.args and not st.value.keywords \
                and listref(st.value.func.value):
            return ('clear', listref(st.value.func.value), go(rest, parsers))
        if isinstance(st, ast.Assign) and len(st.targets) == 1 and isinstance(st.targets[0], ast.Name) \
                and st.targets[0].id != 'self' and st.targets[0].id not in params and new_parser(st.value):
            name = st.targets[0].id
            if name not in order:
                order.append(name)
            ab = new_parser(st.value)
            return ('newParser', order.index(name), ab[0], ab[1], go(rest, parsers | {name}))
        if isinstance(st, ast.Return) and isinstance(st.value, ast.Call) and isinstance(st.value.func, ast.Attribute) \
                and st.value.func.attr == 'feed_generator' and not st.value.keywords and len(st.value.args) == 1:
            recv, arg = st.value.func.value, st.value.args[0]
            src_ok = (isinstance(arg, ast.Call) and isinstance(arg.func, ast.Attribute) and arg.func.attr == 'traces'
                      and isinstance(arg.func.value, ast.Name) and arg.func.value.id == 'self' and not arg.keywords
                      and len(arg.args) == 2 and all(isinstance(x, ast.Name) and x.id in params for x in arg.args))
            if src_ok:
                k, c = (params.index(x.id) for x in arg.args)
                if isinstance(recv, ast.Name) and recv.id in parsers:
                    return ('retFeed', order.index(recv.id), k, c)
                if new_parser(recv):                       # `return CallstacksParser(a, b).feed_generator(…)`
                    ab = new_parser(recv)
                    v = len(order)
                    return ('newParser', v, ab[0], ab[1], ('retFeed', v, k, c))
        return ('unsupported', text(st))

    return len(params), defaults, go(_first_docless(fn.body), frozenset())


_NEXT = {'assign': 3, 'assignNewList': 2, 'forIn': 4, 'insert': 4, 'appendVar': 3, 'callInsert': 3}


def _swap_final_yield(s):
    """the statement chain `s` with its final `yield Callstack(_, _, <local>)` replaced by `return <local>` (None: no such end)"""
    k = s[0]
    if k == 'yield' and s[2] == ('done',) and s[1][0] == 'mkCallstack' and s[1][3][0] == 'var':
        return ('ret', s[1][3])
    if k in _NEXT:
        r = _swap_final_yield(s[_NEXT[k]])
        return None if r is None else s[:_NEXT[k]] + (r,) + s[_NEXT[k] + 1:]
    return None


def translate_callstacks(repo):
    """-> ({'insertImage': (params, body), 'frameLoop': (params, body), 'feedGenerator': (params, body),
            'init': (params, sets), 'callstacks': (params, defaults, body)}, notes)"""
    with open(os.path.join(repo, 'pykdebugparser', 'callstacks_parser.py')) as fd:
        src = fd.read()
    tree = ast.parse(src)
    notes, names = [], {}
    for node in tree.body:
        if isinstance(node, ast.ImportFrom) and node.module == 'bisect' and node.level == 0:
            for al in node.names:
                if al.name in ('bisect', 'bisect_right'):
                    names[al.asname or al.name] = 'bisect'
        elif isinstance(node, ast.ImportFrom) and node.level == 0:
            for al in node.names:
                bound = al.asname or al.name
                if al.name in CS_CLASSES and CS_CLASSES[al.name][0] == node.module:
                    names[bound] = 'cls:' + CS_CLASSES[al.name][1]
                elif bound in names:
                    del names[bound]
        elif isinstance(node, ast.Assign) and len(node.targets) == 1 and isinstance(node.targets[0], ast.Name):
            v = node.value
            fields = None
            if isinstance(v, ast.Call) and isinstance(v.func, ast.Name) and v.func.id == 'namedtuple' and len(v.args) == 2 \
                    and isinstance(v.args[1], ast.List):
                fields = [getattr(e, 'value', None) for e in v.args[1].elts]
            if fields == ['address', 'uuid', 'offset']:
                names[node.targets[0].id] = 'mkFrame'
            elif fields == ['timestamp', 'tid', 'frames']:
                names[node.targets[0].id] = 'mkCallstack'
            elif node.targets[0].id in names:
                del names[node.targets[0].id]
        elif isinstance(node, (ast.FunctionDef, ast.ClassDef)) and node.name in names:
            del names[node.name]
        elif isinstance(node, (ast.FunctionDef, ast.ClassDef)) and node.name == 'isinstance':
            names['isinstance'] = 'shadowed'
    cls = next((n for n in tree.body if isinstance(n, ast.ClassDef) and n.name == 'CallstacksParser'), None)
    fns = {n.name: n for n in (cls.body if cls else []) if isinstance(n, ast.FunctionDef)}
    out = {}
    if cls is None:
        notes.append('class CallstacksParser not found')
    else:
        if cls.bases or cls.keywords or cls.decorator_list:
            notes.append('CallstacksParser has bases / decorators')
        for n in cls.body:
            if isinstance(n, ast.FunctionDef) and (n.decorator_list or n.name in (
                    '__getattr__', '__getattribute__', '__setattr__', '__new__', '__init_subclass__')):
                notes.append('CallstacksParser.%s: decorated or an attribute hook' % n.name)
            elif not isinstance(n, ast.FunctionDef) and not (isinstance(n, ast.Expr) and isinstance(n.value, ast.Constant)):
                notes.append('CallstacksParser: class-level statement at line %d' % n.lineno)
        for n in ast.walk(cls):                 # the two attributes are bound in __init__ only
            if isinstance(n, ast.Attribute) and isinstance(n.ctx, (ast.Store, ast.Del)) \
                    and _self_attr(n, ('dyld_addresses', 'dyld_uuids', 'insert_image', 'feed_generator')) \
                    and not ('__init__' in fns and any(n is x for x in ast.walk(fns['__init__']))):
                notes.append('self.%s is assigned outside __init__ (line %d)' % (n.attr, n.lineno))
    out['init'] = translate_init(src, cls, notes) if cls is not None else (0, [])
    if 'insert_image' in fns:
        p, b = CsTranslator(src, fns['insert_image'], names).translate()
        out['insertImage'] = (p, _cs_sanitize(b))
        names = dict(names)
        names['self.insert_image'] = 'callInsert'       # `self.insert_image(a, u)` is a call of the method translated above
    else:
        out['insertImage'] = (0, ('unsupported', 'method insert_image not found'))
    out['frameLoop'] = (0, ('unsupported', 'frame loop of feed_generator not found'))
    out['feedGenerator'] = (0, ('unsupported', 'method feed_generator not found'))
    fg = fns.get('feed_generator')
    if fg is not None:
        # the whole method
        mt = CsTranslator(src, fg, names)
        a = fg.args
        if (fg.decorator_list or a.vararg or a.kwarg or a.kwonlyargs or a.defaults or a.posonlyargs
                or not a.args or a.args[0].arg != 'self'):
            out['feedGenerator'] = (0, ('unsupported', 'signature of feed_generator'))
        else:
            params = [x.arg for x in a.args[1:]]
            body = mt.block(fg.body, Env({p_: ('var', p_) for p_ in params}), lambda e: ('ret', ('none',)))
            p, b = mt.finish(params, body)
            out['feedGenerator'] = (p, _cs_sanitize(b))
            # the frame loop alone (kept as a block of its own: `frame_loop_ir_eq_model`): inside `for trace in generator:`
            # the first branch of the dispatch, its final `yield Callstack(_, _, <frames>)` replaced by `return <frames>`,
            # the trace as the parameter
            if body[0] == 'forIn' and body[3][0] == 'ite':
                branch = _swap_final_yield(body[3][2])
                if branch is not None:
                    p, b = mt.finish([body[1]], branch)
                    out['frameLoop'] = (p, _cs_sanitize(b))
    out['callstacks'] = translate_request(repo, notes)
    return out, notes


def _lean_req(s, lean_str):
    if s[0] == 'unsupported':
        return '(.unsupported %s)' % lean_str(s[1])
    return '(.%s %s)' % (s[0], ' '.join(_lean_req(x, lean_str) if isinstance(x, tuple) else str(x) for x in s[1:]))


def generate_callstacks(repo, write_if_changed, lean_str):
    blocks, notes = translate_callstacks(repo)
    L = ['import KdVerif.Model.PyIRCs', 'namespace KdVerif.Gen.PyIRCs', 'open KdVerif.PyIRCs', '',
         '/-! `CallstacksParser.__init__` / `insert_image` / `feed_generator` (whole, and its frame loop alone) of',
         '    pykdebugparser/callstacks_parser.py and `PyKdebugParser.callstacks` of pykdebugparser/pykdebugparser.py,',
         '    symbolically evaluated from the source text into the IR of `Model/PyIRCs` (tools/gen_pyir.py). -/', '']
    p, sets = blocks['init']
    L.append('def init : InitDef := { params := %d, sets := [%s] }\n' % (p, ', '.join('(%s, %d)' % x for x in sets)))
    for field in ('insertImage', 'frameLoop', 'feedGenerator'):
        params, body = blocks[field]
        L.append('def %s : Block := { params := %d, body :=\n  %s }\n' % (field, params, lean(body, lean_str)))
    p, defaults, body = blocks['callstacks']
    L.append('def callstacks : RequestDef := { params := %d, defaults := [%s], body :=\n  %s }\n'
             % (p, ', '.join(lean(d, lean_str) for d in defaults), _lean_req(body, lean_str)))
    L.append('def prog : Prog := { init := init, insertImage := insertImage, feedGenerator := feedGenerator, '
             'callstacks := callstacks }\n')
    L.append('/-- What the translator could not express outside the method bodies (must be empty). -/')
    L.append('def notes : List String := [' + ', '.join(lean_str(n) for n in notes) + ']\n')
    L += ['end KdVerif.Gen.PyIRCs', '']
    return write_if_changed('PyIRCs.lean', '\n'.join(L))


def lean_init(init_def, lean_str):
    params, sets, updates = init_def

    def val(v):
        if v[0] == 'param':
            return '.param %d' % v[1]
        if v[0] == 'emptyDict':
            return '.emptyDict'
        return '.unsupported %s' % lean_str(v[1])
    return ('{ params := %d,\n    sets := [%s],\n    updates := [%s] }'
            % (params, ', '.join('(%s, %s)' % (a, val(v)) for a, v in sets), ', '.join('.' + f for f in updates)))


def generate(repo, write_if_changed, lean_str):
    methods, actions, notes, init_def, feed_gen = translate_source(repo)
    L = ['import KdVerif.Model.PyIRTp', 'namespace KdVerif.Gen.PyIR', 'open KdVerif.PyIR KdVerif.PyIRTp', '',
         '/-! `TracesParser.feed` / `parse_event_list` / `_feed_*_event` of pykdebugparser/traces_parser.py, symbolically',
         '    evaluated from the source text into the IR of `Model/PyIR`; `feed_generator` and `__init__` into the IR of',
         '    `Model/PyIRTp` (tools/gen_pyir.py). -/', '']
    for _py, field, _tag in METHODS:
        params, body = methods[field]
        L.append('def %s : MethodDef := { params := %d, body :=\n  %s }\n' % (field, params, lean(body, lean_str)))
    L.append('/-- `self.qualifiers_actions`: qualifier value → method, in the order of the dict display. -/')
    L.append('def actions : List (Nat × Meth) := [' + ', '.join('(%d, %s)' % kv for kv in actions) + ']\n')
    L.append('def prog : Prog := { feed := feed, parseEventList := parseEventList, feedStart := feedStart, '
             'feedEnd := feedEnd, feedSingle := feedSingle, actions := actions }\n')
    L.append('/-- `feed_generator(self, generator)` -/')
    L.append('def feedGenerator : GenDef := { params := %d, body :=\n  %s }\n' % (feed_gen[0], lean(feed_gen[1], lean_str)))
    L.append('/-- `__init__`: the initialisers sorted by attribute, the `self.handlers.update(...)` calls in source order. -/')
    L.append('def init : InitDef :=\n  %s\n' % lean_init(init_def, lean_str))
    L.append('/-- What the translator could not express outside the method bodies (must be empty). -/')
    L.append('def notes : List String := [' + ', '.join(lean_str(n) for n in notes) + ']\n')
    L += ['end KdVerif.Gen.PyIR', '']
    a = write_if_changed('PyIR.lean', '\n'.join(L))
    b = generate_callstacks(repo, write_if_changed, lean_str)
    return a or b
