import KdVerif.Model.Pairing
/-
  A deep embedding of the Python subset used by `TracesParser.feed`, `parse_event_list`,
  `_feed_start_event`, `_feed_end_event`, `_feed_single_event` (`pykdebugparser/traces_parser.py`) and a
  big-step interpreter for it.  `tools/gen_pyir.py` translates the SOURCE TEXT of those five methods into
  terms of this IR (`Gen/PyIR.lean`); `Props/C04` proves that the translated program, run by this
  interpreter, is `Model/Pairing.step` / `gate`.

  The heap (`World`) holds the two window tables as Python holds them: dict tid → (dict eventid → list of
  events), as INSERTION-ORDERED association lists (`d[k] = v` on an existing key keeps its position, on a
  new key appends; iteration is in list order; `pop` removes).  Values that denote a mutable object living
  in a table (`state`, `state[tid]`, `state[tid][eventid]`) are PATHS into the heap; the interpreter
  refuses (`.unmodelled`) to store such a path in a local variable, so a path is never used after the
  heap changed under it.  Names of local variables are numbers (parameters first, then locals in order of
  first binding); trace names are numbers too (the tables `trace_codes`, `trace_handlers`,
  `self.handlers` are the read-only parameter `Cfg`).  Whatever is outside the modelled behaviour answers
  `.error .unmodelled` — never a guessed Python exception.  Core Lean only.
-/
namespace KdVerif.PyIR

/-! ### Python dicts with integer keys: insertion-ordered association lists -/

abbrev AList (β : Type) := List (Nat × β)

namespace AList
variable {β : Type}

/-- `d.get(k)` / `d[k]`: the first entry with key `k`. -/
def lookup (k : Nat) : AList β → Option β
  | [] => none
  | p :: r => if p.1 = k then some p.2 else lookup k r

/-- `k in d` -/
def contains (k : Nat) (m : AList β) : Bool := (lookup k m).isSome

/-- `d[k] = v`: an existing key keeps its position, a new key goes to the end. -/
def set (k : Nat) (v : β) : AList β → AList β
  | [] => [(k, v)]
  | p :: r => if p.1 = k then (p.1, v) :: r else p :: set k v r

/-- `del d[k]` (the removal done by `d.pop(k)`). -/
def erase (k : Nat) : AList β → AList β
  | [] => []
  | p :: r => if p.1 = k then r else p :: erase k r

/-- `list(d)`: the keys in iteration order. -/
def keys (m : AList β) : List Nat := m.map (·.1)

end AList

/-- `state[tid]` : dict eventid → list of events -/
abbrev Inner := AList (List Kevent)
/-- `self.on_going_events` / `self.on_going_traces` : dict tid → dict eventid → list of events -/
abbrev Tbl := AList Inner

instance : DecidableEq Inner := inferInstance
instance : DecidableEq Tbl := inferInstance

/-- The mutable part of a `TracesParser` that the five methods touch, plus an observation log:
    `calls` = the argument of every call of `parse_event_list` so far, in order (what the harness sees by
    wrapping that method). -/
structure World where
  events : Tbl := []
  traces : Tbl := []
  calls : List (List Kevent) := []
  deriving DecidableEq, Repr

def World.empty : World := {}

/-- `false` = `self.on_going_events`, `true` = `self.on_going_traces`. -/
def World.tbl (w : World) : Bool → Tbl
  | false => w.events
  | true => w.traces

def World.setTbl (w : World) : Bool → Tbl → World
  | false, t => { w with events := t }
  | true, t => { w with traces := t }

/-- The read-only tables: `self.trace_codes` (event id → name), `name in trace_handlers` (module
    `trace_handlers.trace`), `name in self.handlers`. -/
structure Cfg where
  codes : Nat → Option Nat
  isTraceName : Nat → Bool
  hasHandler : Nat → Bool

/-! ### syntax -/

inductive Fld | tid | eventid | funcQualifier
  deriving DecidableEq, Repr

inductive Attr | traceCodes | onGoingEvents | onGoingTraces | handlers
  deriving DecidableEq, Repr

inductive Meth | feed | parseEventList | feedStart | feedEnd | feedSingle
  deriving DecidableEq, Repr

inductive Expr
  | none                              -- `None`
  | int (n : Nat)                     -- integer literal
  | var (i : Nat)                     -- parameter / local variable
  | field (e : Expr) (f : Fld)        -- `e.tid`, `e.eventid`, `e.func_qualifier`
  | selfAttr (a : Attr)               -- `self.<attr>`
  | traceHandlers                     -- the module-level name `trace_handlers`
  | isIn (x d : Expr)                 -- `x in d`
  | index (d k : Expr)                -- `d[k]`
  | getOrEmpty (d k : Expr)           -- `d.get(k, {})`
  | not (e : Expr)
  | or (a b : Expr)
  | and (a b : Expr)
  | list1 (e : Expr)                  -- `[e]`
  | unsupported (src : String)        -- anything else (source text)
  deriving DecidableEq, Repr

inductive Call
  | self (m : Meth) (a : Expr)        -- `self.<m>(a)`
  | action (q a b : Expr)             -- `self.qualifiers_actions[q](a, b)`
  | handler (n a : Expr)              -- `self.handlers[n](self, a)`
  deriving DecidableEq, Repr

/-- Statements in continuation form: every simple statement carries the rest of its block (`next`); an
    `if` has the rest of the block pushed into both branches (what a symbolic evaluator produces), so
    conditions are never followed by anything.  `done` ends a loop body; a method body always ends in a
    `ret` (falling off the end is `ret .none`). -/
inductive Stmt
  | done
  | ret (e : Expr)                                   -- `return e`
  | retCall (c : Call)                               -- `return <call>`
  | ite (c : Expr) (t e : Stmt)                      -- `if c: t else: e`
  | assign (v : Nat) (e : Expr) (next : Stmt)        -- `v = e`
  | setNewDict (d k : Expr) (next : Stmt)            -- `d[k] = {}`
  | setNewList (d k : Expr) (next : Stmt)            -- `d[k] = []`
  | forKeys (v : Nat) (it : Expr) (body next : Stmt) -- `for v in it: body`
  | append (l x : Expr) (next : Stmt)                -- `l.append(x)`
  | pop (v : Nat) (d k : Expr) (next : Stmt)         -- `v = d.pop(k)`
  | unsupported (src : String)
  deriving DecidableEq, Repr

structure MethodDef where
  params : Nat          -- number of parameters after `self`; they are the variables `0 … params-1`
  body : Stmt
  deriving DecidableEq, Repr

/-- The five methods and the table `self.qualifiers_actions` (qualifier value → bound method). -/
structure Prog where
  feed : MethodDef
  parseEventList : MethodDef
  feedStart : MethodDef
  feedEnd : MethodDef
  feedSingle : MethodDef
  actions : List (Nat × Meth)
  deriving DecidableEq, Repr

def Prog.method (p : Prog) : Meth → MethodDef
  | .feed => p.feed
  | .parseEventList => p.parseEventList
  | .feedStart => p.feedStart
  | .feedEnd => p.feedEnd
  | .feedSingle => p.feedSingle

/-! ### values -/

inductive Val
  | none
  | bool (b : Bool)
  | int (n : Nat)
  | name (n : Nat)                      -- a trace name (a `str`), as its number
  | event (e : Kevent)
  | list (l : List Kevent)              -- a list of events held by value (a local, an argument)
  | emptyDict                           -- the fresh `{}` of `d.get(k, {})`
  | codes | handlers | traceHandlers    -- the three read-only dicts
  | table (d : Bool)                    -- path: one of the two window tables
  | inner (d : Bool) (t : Nat)          -- path: `table[t]`
  | listRef (d : Bool) (t e : Nat)      -- path: `table[t][e]`
  | result (n : Nat) (w : List Kevent)  -- whatever `self.handlers[n](self, w)` returned (abstract)
  deriving DecidableEq, Repr

/-- May be bound to a local variable / passed on: everything but a path into a window table below the
    table itself. -/
def Val.storable : Val → Bool
  | .inner .. | .listRef .. | .emptyDict => false
  | _ => true

abbrev Env := Nat → Option Val

def Env.set (env : Env) (i : Nat) (v : Val) : Env := fun j => if j = i then some v else env j

def Env.ofArgs (args : List Val) : Env := fun j => args[j]?

/-! ### expressions (no side effects) -/

def evalField (f : Fld) : Val → Except PyErr Val
  | .event e => .ok (.int (match f with | .tid => e.tid | .eventid => e.eventid | .funcQualifier => e.qual))
  | _ => .error .unmodelled

/-- `x in d` -/
def evalIn (cfg : Cfg) (w : World) : Val → Val → Except PyErr Val
  | .int n, .codes => .ok (.bool (cfg.codes n).isSome)
  | .name n, .handlers => .ok (.bool (cfg.hasHandler n))
  | .name n, .traceHandlers => .ok (.bool (cfg.isTraceName n))
  | .int t, .table d => .ok (.bool (AList.contains t (w.tbl d)))
  | .int e, .inner d t =>
    match AList.lookup t (w.tbl d) with
    | some m => .ok (.bool (AList.contains e m))
    | none => .error .unmodelled
  | .int _, .emptyDict => .ok (.bool false)
  | _, _ => .error .unmodelled

/-- `d[k]` -/
def evalIndex (cfg : Cfg) (w : World) : Val → Val → Except PyErr Val
  | .codes, .int n =>
    match cfg.codes n with
    | some nm => .ok (.name nm)
    | none => .error .keyError
  | .table d, .int t => if AList.contains t (w.tbl d) then .ok (.inner d t) else .error .keyError
  | .inner d t, .int e =>
    match AList.lookup t (w.tbl d) with
    | some m => if AList.contains e m then .ok (.listRef d t e) else .error .keyError
    | none => .error .unmodelled
  | .list l, .int i =>
    match l[i]? with
    | some ev => .ok (.event ev)
    | none => .error .indexError
  | .emptyDict, .int _ => .error .keyError
  | _, _ => .error .unmodelled

/-- `d.get(k, {})` -/
def evalGet (w : World) : Val → Val → Except PyErr Val
  | .table d, .int t => .ok (if AList.contains t (w.tbl d) then .inner d t else .emptyDict)
  | _, _ => .error .unmodelled

def evalNot : Val → Except PyErr Val
  | .bool b => .ok (.bool (!b))
  | _ => .error .unmodelled

def asBool : Val → Except PyErr Bool
  | .bool b => .ok b
  | _ => .error .unmodelled

/-- Evaluation order is Python's: left operand first; `or` / `and` short-circuit. -/
def eval (cfg : Cfg) (w : World) (env : Env) : Expr → Except PyErr Val
  | .none => .ok .none
  | .int n => .ok (.int n)
  | .var i => match env i with | some v => .ok v | none => .error .unmodelled
  | .field e f => match eval cfg w env e with | .ok v => evalField f v | .error x => .error x
  | .selfAttr a =>
    .ok (match a with
      | .traceCodes => .codes | .onGoingEvents => .table false | .onGoingTraces => .table true
      | .handlers => .handlers)
  | .traceHandlers => .ok .traceHandlers
  | .isIn x d =>
    match eval cfg w env x with
    | .error e => .error e
    | .ok xv => match eval cfg w env d with | .ok dv => evalIn cfg w xv dv | .error e => .error e
  | .index d k =>
    match eval cfg w env d with
    | .error e => .error e
    | .ok dv => match eval cfg w env k with | .ok kv => evalIndex cfg w dv kv | .error e => .error e
  | .getOrEmpty d k =>
    match eval cfg w env d with
    | .error e => .error e
    | .ok dv => match eval cfg w env k with | .ok kv => evalGet w dv kv | .error e => .error e
  | .not e => match eval cfg w env e with | .ok v => evalNot v | .error x => .error x
  | .or a b =>
    match eval cfg w env a with
    | .ok (.bool true) => .ok (.bool true)
    | .ok (.bool false) => (match eval cfg w env b with | .ok (.bool c) => .ok (.bool c) | .ok _ => .error .unmodelled | .error x => .error x)
    | .ok _ => .error .unmodelled
    | .error x => .error x
  | .and a b =>
    match eval cfg w env a with
    | .ok (.bool false) => .ok (.bool false)
    | .ok (.bool true) => (match eval cfg w env b with | .ok (.bool c) => .ok (.bool c) | .ok _ => .error .unmodelled | .error x => .error x)
    | .ok _ => .error .unmodelled
    | .error x => .error x
  | .list1 e => match eval cfg w env e with | .ok (.event ev) => .ok (.list [ev]) | .ok _ => .error .unmodelled | .error x => .error x
  | .unsupported _ => .error .unmodelled

/-! ### statements -/

inductive Outcome
  | normal
  | ret (v : Val)
  deriving DecidableEq, Repr

abbrev Callee := Meth → List Val → World → Except PyErr (Val × World)

/-- `return <call>`: the callee expression is evaluated first, then the arguments (Python's order). -/
def doCall (acts : List (Nat × Meth)) (cfg : Cfg) (callee : Callee) (w : World) (env : Env) :
    Call → Except PyErr (Val × World)
  | .self m a =>
    match eval cfg w env a with
    | .ok av => callee m [av] w
    | .error x => .error x
  | .action q a b =>
    match eval cfg w env q with
    | .ok (.int n) =>
      (match acts.lookup n with
       | none => .error .keyError
       | some m =>
         match eval cfg w env a with
         | .error x => .error x
         | .ok av => match eval cfg w env b with | .ok bv => callee m [av, bv] w | .error x => .error x)
    | .ok _ => .error .unmodelled
    | .error x => .error x
  | .handler n a =>
    match eval cfg w env n with
    | .ok (.name nm) =>
      if cfg.hasHandler nm then
        (match eval cfg w env a with
         | .ok (.list l) => .ok (.result nm l, w)
         | .ok _ => .error .unmodelled
         | .error x => .error x)
      else .error .keyError
    | .ok _ => .error .unmodelled
    | .error x => .error x

/-- The keys a `for` iterates over (a snapshot taken when the loop starts). -/
def iterKeys (w : World) : Val → Except PyErr (List Nat)
  | .inner d t => match AList.lookup t (w.tbl d) with | some m => .ok (AList.keys m) | none => .error .unmodelled
  | .emptyDict => .ok []
  | _ => .error .unmodelled

/-- `for v in <keys>: body`.  After every round the iterated dict must still have the keys of the
    snapshot (Python raises `RuntimeError` when its size changed; anything but "unchanged" is outside the
    model). -/
def forLoop (body : Env → World → Except PyErr (Outcome × Env × World)) (v : Nat) (it : Val) (snapshot : List Nat) :
    List Nat → Env → World → Except PyErr (Outcome × Env × World)
  | [], env, w => .ok (.normal, env, w)
  | k :: ks, env, w =>
    match body (env.set v (.int k)) w with
    | .error x => .error x
    | .ok (.ret x, env', w') => .ok (.ret x, env', w')
    | .ok (.normal, env', w') =>
      match iterKeys w' it with
      | .ok now => if now = snapshot then forLoop body v it snapshot ks env' w' else .error .unmodelled
      | .error x => .error x

def exec (acts : List (Nat × Meth)) (cfg : Cfg) (callee : Callee) :
    Stmt → Env → World → Except PyErr (Outcome × Env × World)
  | .done, env, w => .ok (.normal, env, w)
  | .ret e, env, w => match eval cfg w env e with | .ok v => .ok (.ret v, env, w) | .error x => .error x
  | .retCall c, env, w =>
    match doCall acts cfg callee w env c with
    | .ok (v, w') => .ok (.ret v, env, w')
    | .error x => .error x
  | .ite c t e, env, w =>
    match eval cfg w env c with
    | .ok (.bool true) => exec acts cfg callee t env w
    | .ok (.bool false) => exec acts cfg callee e env w
    | .ok _ => .error .unmodelled
    | .error x => .error x
  | .assign v e next, env, w =>
    match eval cfg w env e with
    | .ok x => if x.storable then exec acts cfg callee next (env.set v x) w else .error .unmodelled
    | .error x => .error x
  | .setNewDict d k next, env, w =>
    match eval cfg w env d with
    | .error x => .error x
    | .ok dv =>
      match eval cfg w env k with
      | .error x => .error x
      | .ok kv =>
        match dv, kv with
        | .table b, .int t => exec acts cfg callee next env (w.setTbl b (AList.set t [] (w.tbl b)))
        | _, _ => .error .unmodelled
  | .setNewList d k next, env, w =>
    match eval cfg w env d with
    | .error x => .error x
    | .ok dv =>
      match eval cfg w env k with
      | .error x => .error x
      | .ok kv =>
        match dv, kv with
        | .inner b t, .int e =>
          (match AList.lookup t (w.tbl b) with
           | some m => exec acts cfg callee next env (w.setTbl b (AList.set t (AList.set e [] m) (w.tbl b)))
           | none => .error .unmodelled)
        | _, _ => .error .unmodelled
  | .forKeys v it body next, env, w =>
    match eval cfg w env it with
    | .error x => .error x
    | .ok itv =>
      match iterKeys w itv with
      | .error x => .error x
      | .ok ks =>
        match forLoop (fun env w => exec acts cfg callee body env w) v itv ks ks env w with
        | .ok (.normal, env', w') => exec acts cfg callee next env' w'
        | r => r
  | .append l x next, env, w =>
    match eval cfg w env l with
    | .error x => .error x
    | .ok lv =>
      match eval cfg w env x with
      | .error x => .error x
      | .ok xv =>
        match lv, xv with
        | .listRef b t e, .event ev =>
          (match AList.lookup t (w.tbl b) with
           | some m =>
             (match AList.lookup e m with
              | some lst => exec acts cfg callee next env (w.setTbl b (AList.set t (AList.set e (lst ++ [ev]) m) (w.tbl b)))
              | none => .error .unmodelled)
           | none => .error .unmodelled)
        | _, _ => .error .unmodelled
  | .pop v d k next, env, w =>
    match eval cfg w env d with
    | .error x => .error x
    | .ok dv =>
      match eval cfg w env k with
      | .error x => .error x
      | .ok kv =>
        match dv, kv with
        | .inner b t, .int e =>
          (match AList.lookup t (w.tbl b) with
           | some m =>
             (match AList.lookup e m with
              | some lst => exec acts cfg callee next (env.set v (.list lst)) (w.setTbl b (AList.set t (AList.erase e m) (w.tbl b)))
              | none => .error .keyError)
           | none => .error .unmodelled)
        | _, _ => .error .unmodelled
  | .unsupported _, _, _ => .error .unmodelled

/-- The value of a call: what the body returned; falling off its end is `None`. -/
def finish : Except PyErr (Outcome × Env × World) → Except PyErr (Val × World)
  | .ok (.ret v, _, w') => .ok (v, w')
  | .ok (.normal, _, w') => .ok (.none, w')
  | .error x => .error x

/-- Calling a method of the parser with `depth` levels of nested method calls still allowed (the call graph
    `feed → _feed_*_event → parse_event_list → handler` has depth 3; a deeper chain answers `.unmodelled`).
    Entering `parse_event_list` is recorded in `World.calls`. -/
def invoke (p : Prog) (cfg : Cfg) : Nat → Callee
  | 0, _, _, _ => .error .unmodelled
  | depth + 1, m, args, w =>
    let md := p.method m
    if args.length ≠ md.params then .error .unmodelled
    else if args.all Val.storable = false then .error .unmodelled
    else
      let w1 : Except PyErr World :=
        match m, args with
        | .parseEventList, [.list l] => .ok { w with calls := w.calls ++ [l] }
        | .parseEventList, _ => .error .unmodelled
        | _, _ => .ok w
      match w1 with
      | .error x => .error x
      | .ok w1 => finish (exec p.actions cfg (invoke p cfg depth) md.body (Env.ofArgs args) w1)

/-- `parser.feed(event)` -/
def feed (p : Prog) (cfg : Cfg) (w : World) (e : Kevent) : Except PyErr (Val × World) :=
  invoke p cfg 3 .feed [.event e] w

/-- Feeding a history: the values returned by `feed`, in order, and the final heap. -/
def runFrom (p : Prog) (cfg : Cfg) : World → List Kevent → Except PyErr (List Val × World)
  | w, [] => .ok ([], w)
  | w, e :: es =>
    match feed p cfg w e with
    | .error x => .error x
    | .ok (v, w') =>
      match runFrom p cfg w' es with
      | .ok (vs, w'') => .ok (v :: vs, w'')
      | .error x => .error x

/-! ### syntactic check used by the driver: does a program contain an `.unsupported` node? -/

def Expr.hasUnsupported : Expr → Bool
  | .unsupported _ => true
  | .field e _ | .not e | .list1 e => e.hasUnsupported
  | .isIn a b | .index a b | .getOrEmpty a b | .or a b | .and a b => a.hasUnsupported || b.hasUnsupported
  | _ => false

def Call.hasUnsupported : Call → Bool
  | .self _ a => a.hasUnsupported
  | .action q a b => q.hasUnsupported || a.hasUnsupported || b.hasUnsupported
  | .handler n a => n.hasUnsupported || a.hasUnsupported

def Stmt.hasUnsupported : Stmt → Bool
  | .unsupported _ => true
  | .done => false
  | .ret e => e.hasUnsupported
  | .retCall c => c.hasUnsupported
  | .ite c t e => c.hasUnsupported || t.hasUnsupported || e.hasUnsupported
  | .assign _ e n => e.hasUnsupported || n.hasUnsupported
  | .setNewDict d k n | .setNewList d k n | .append d k n | .pop _ d k n =>
    d.hasUnsupported || k.hasUnsupported || n.hasUnsupported
  | .forKeys _ it b n => it.hasUnsupported || b.hasUnsupported || n.hasUnsupported

def Prog.hasUnsupported (p : Prog) : Bool :=
  p.feed.body.hasUnsupported || p.parseEventList.body.hasUnsupported || p.feedStart.body.hasUnsupported ||
  p.feedEnd.body.hasUnsupported || p.feedSingle.body.hasUnsupported

end KdVerif.PyIR
