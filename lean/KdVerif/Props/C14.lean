import KdVerif.Model.Format
import KdVerif.Gen.Enums
import KdVerif.Proofs.Declared
import KdVerif.Gen.Decoders
import KdVerif.Gen.Host
import KdVerif.Proofs.EndToEnd
import KdVerif.Gen.PyIRFm
import KdVerif.Proofs.PyIRFm
import KdVerif.Gen.PyIRCli
import KdVerif.Proofs.PyIRCli
/-
  C14 (column half) — every formatted line is the concatenation, in a fixed order, of the enabled
  columns; switching one column off removes exactly that column and alters no other; colouring
  never changes the text; the process column names the process the two lookup tables hold for the
  emitting thread, and a thread absent from the table is reported as `Error: tid N`.

  Subject: `Format.formatKevent / formatTrace / formatCallstack / formatLog` (Model/Format.lean), the
  line builders written statement by statement like `_format_kevent / _format_trace /
  _format_callstack / _format_log`.

  Scope notes.
  * `_format_timestamp`: only the tick branch (`str(ts) + ' '`) — the wall-clock branch (all five
    time parameters set; float arithmetic, `datetime`) is outside the model, the command-line tool
    never enables it.
  * pygments (`highlight`) and termcolor (`colored`) are external: they are parameters (`Colour`).
    The text theorems are stated with colour off; `*_colour_transparent` hold for any eraser `strip`
    under explicit assumptions about `strip` and the highlighter.  The correspondence checks the
    conclusion on every generated line by stripping ANSI escapes from the real coloured output.
    Note `_format_trace` additionally `.strip()`s the highlighted text: `Colour.hlTrace` stands for
    the composite.  For pygments the assumption is FALSE on bodies with `\r` or leading / trailing
    newlines (known finding K7), hence `trace_colour_transparent_partial`.
  * `_format_kevent` and `_format_callstack` never consult `self.color` (their models take no
    `Colour`), `_format_log` consults none of the `show_*` switches (its model takes no `Show`).

  PROCESS-COLUMN HALF (second part of this file, `tables_are_fold`, `process_column_spec`): in the
  first part the tables are a parameter and `process_column_lookup` states what the column shows
  for given tables; the second part proves that the tables the pipeline holds when a line is
  formatted are the thread map superseded, in stream order, by the new-thread / exec /
  terminate-pid / sampler records of the prefix UP TO AND INCLUDING THE EVENT THAT COMPLETED THE
  TRACE (`formatted_traces` is a lazy `map` over the generator: a trace is formatted before the
  next event is fed).  Event lines (`formatted_kevents`) never run the trace decoders: their
  tables are the thread map alone, whatever records the stream holds (`kevent_process_column_spec`).
-/
namespace KdVerif.C14
open KdVerif.Format
open KdVerif.Filters (LogRec)

/-! ### switches and columns -/

inductive Switch
  | timestamp | name | funcQual | tid | process | args
  deriving DecidableEq, Repr

def get (sh : Show) : Switch → Bool
  | .timestamp => sh.timestamp | .name => sh.name | .funcQual => sh.funcQual
  | .tid => sh.tid | .process => sh.process | .args => sh.args

def set (sh : Show) (c : Switch) (b : Bool) : Show :=
  match c with
  | .timestamp => { sh with timestamp := b } | .name => { sh with name := b }
  | .funcQual => { sh with funcQual := b } | .tid => { sh with tid := b }
  | .process => { sh with process := b } | .args => { sh with args := b }

theorem get_set (sh : Show) (c c' : Switch) (b : Bool) :
    get (set sh c b) c' = if c' = c then b else get sh c' := by
  cases c <;> cases c' <;> rfl

/-- A column: the switch that controls it (`none`: always printed) and its text. -/
abbrev Col := Option Switch × String

def enabled (sh : Show) : Option Switch → Bool
  | none => true
  | some c => get sh c

/-- The concatenation, in list order, of the enabled columns. -/
def joinCols (sh : Show) (cols : List Col) : String :=
  String.join ((cols.filter (fun c => enabled sh c.1)).map (·.2))

/-- The columns other than `c`. -/
def without (c : Switch) (cols : List Col) : List Col := cols.filter (fun x => x.1 ≠ some c)

/-- The columns before / after column `c`, and its text. -/
def before (c : Switch) (cols : List Col) : List Col := cols.takeWhile (fun x => x.1 ≠ some c)
def after (c : Switch) (cols : List Col) : List Col := (cols.dropWhile (fun x => x.1 ≠ some c)).drop 1
def textOf (c : Switch) (cols : List Col) : String := ((cols.find? (fun x => x.1 = some c)).map (·.2)).getD ""

/-! ### the column texts: each a function of its own field only -/

def colTimestamp (timestamp : Nat) : String := toString timestamp ++ " "

def eventName (codes : List (Nat × String)) (eventid : Nat) : String :=
  match codes.lookup eventid with
  | some n => n ++ (" (" ++ pyHex eventid ++ ")")
  | none => pyHex eventid

def colName (codes : List (Nat × String)) (eventid : Nat) : String := padRight 58 (eventName codes eventid)

def colQual (qe : EnumDef) (qual : Nat) : String :=
  match qe.ofValue qual with
  | some m => padRight 15 m.name
  | none => padRight 16 "Error"

def colTidHex (tid : Nat) : String := padRight 12 (pyHex tid)
def colTidDec (tid : Nat) : String := padLeft 11 (toString tid) ++ " "
def colProcess (w : Nat) (t : Format.Tables) (tid : Nat) : String := padRight w (formatProcess t tid)
def colArgs (data : Bytes) : String := padRight 34 (bytesRepr data)

/-- Event line: timestamp, name, qualifier, thread id (hex), process (27), argument bytes. -/
def keventCols (qe : EnumDef) (codes : List (Nat × String)) (t : Format.Tables) (e : Kevent) : List Col :=
  [(some .timestamp, colTimestamp e.timestamp), (some .name, colName codes e.eventid),
   (some .funcQual, colQual qe e.qual), (some .tid, colTidHex e.tid),
   (some .process, colProcess 27 t e.tid), (some .args, colArgs e.data)]

/-- Header shared by trace and callstack lines: timestamp, thread id (decimal), process (34). -/
def headerCols (t : Format.Tables) (timestamp tid : Nat) : List Col :=
  [(some .timestamp, colTimestamp timestamp), (some .tid, colTidDec tid), (some .process, colProcess 34 t tid)]

/-- Trace line: header, then the body (always printed). -/
def traceCols (t : Format.Tables) (tr : TraceRec) : List Col := headerCols t tr.timestamp tr.tid ++ [(none, tr.body)]

/-- Log line: timestamp text (27), the process between two spaces when the record has a process
    name, the message.  No column is switchable. -/
def logCols (t : Format.Tables) (timeString : String) (l : LogRec) : List Col :=
  [(none, padRight 27 timeString)]
    ++ (if l.process ≠ "" then [(none, " " ++ colProcess 27 t l.threadIdentifier ++ " ")] else [])
    ++ [(none, l.message)]

/-! ### generic facts about `joinCols` -/

theorem joinCols_nil (sh : Show) : joinCols sh [] = "" := rfl

theorem joinCols_cons (sh : Show) (c : Col) (cols : List Col) :
    joinCols sh (c :: cols) = (if enabled sh c.1 then c.2 else "") ++ joinCols sh cols := by
  unfold joinCols
  by_cases h : enabled sh c.1 <;> simp [h, String.join_cons]

theorem joinCols_append (sh : Show) (a b : List Col) :
    joinCols sh (a ++ b) = joinCols sh a ++ joinCols sh b := by
  simp [joinCols, List.filter_append, String.join_append]

/-- Switching `c` off = joining the columns other than `c` (for any column list). -/
theorem joinCols_off (sh : Show) (c : Switch) (cols : List Col) :
    joinCols (set sh c false) cols = joinCols sh (without c cols) := by
  unfold joinCols without
  rw [List.filter_filter]
  congr 2
  apply List.filter_congr
  intro x _
  rcases x with ⟨_ | c', txt⟩
  · simp [enabled]
  · by_cases h : c' = c <;> simp [enabled, get_set, h]

theorem joinCols_unrelated (sh : Show) (c : Switch) (cols : List Col) (h : ∀ x ∈ cols, x.1 ≠ some c) (b : Bool) :
    joinCols (set sh c b) cols = joinCols sh cols := by
  unfold joinCols
  congr 2
  apply List.filter_congr
  intro x hx
  rcases x with ⟨_ | c', txt⟩
  · rfl
  · have : c' ≠ c := fun e => h _ hx (by rw [e])
    simp [enabled, get_set, this]

/-- Splice form: if the column list is `l1 ++ [(c, txt)] ++ l2` and `c` labels nothing else, the line is
    `pre ++ txt ++ post` with the column on and `pre ++ post` — the same `pre` and `post` — with it off. -/
theorem joinCols_splice (sh : Show) (c : Switch) (l1 l2 : List Col) (txt : String)
    (h1 : ∀ x ∈ l1, x.1 ≠ some c) (h2 : ∀ x ∈ l2, x.1 ≠ some c) :
    joinCols sh (l1 ++ (some c, txt) :: l2)
        = joinCols sh l1 ++ (if get sh c then txt else "") ++ joinCols sh l2 ∧
    joinCols (set sh c false) (l1 ++ (some c, txt) :: l2) = joinCols sh l1 ++ joinCols sh l2 := by
  constructor
  · rw [joinCols_append, joinCols_cons, String.append_assoc]; rfl
  · rw [joinCols_append, joinCols_cons, joinCols_unrelated sh c l1 h1, joinCols_unrelated sh c l2 h2]
    simp [enabled, get_set]

/-! ### the builders are joins -/

/-- **kevent_is_join.**  An event line is the concatenation, in the fixed order timestamp, name,
    qualifier, thread id, process, arguments, of the enabled columns (all 2^6 settings). -/
theorem kevent_is_join (sh : Show) (qe : EnumDef) (codes : List (Nat × String)) (t : Format.Tables) (e : Kevent) :
    formatKevent sh qe codes t e = joinCols sh (keventCols qe codes t e) := by
  rcases sh with ⟨a, b, c, d, f, g⟩
  simp only [formatKevent, keventCols, joinCols_cons, joinCols_nil, enabled, get, colTimestamp, colName,
    eventName, colQual, colTidHex, colProcess, colArgs, formatTimestamp]
  cases List.lookup e.eventid codes <;> cases qe.ofValue e.qual <;>
    cases a <;> cases b <;> cases c <;> cases d <;> cases f <;> cases g <;>
    simp [String.append_assoc]

/-- **trace_is_join** (colour off): header columns timestamp, thread id, process, then the body. -/
theorem trace_is_join (sh : Show) (t : Format.Tables) (tr : TraceRec) :
    formatTrace sh Colour.off t tr = joinCols sh (traceCols t tr) := by
  rcases sh with ⟨a, b, c, d, f, g⟩
  simp only [formatTrace, traceCols, headerCols, List.cons_append, List.nil_append, joinCols_cons, joinCols_nil,
    enabled, get, colTimestamp, colTidDec, colProcess, formatTimestamp, Colour.off]
  cases a <;> cases d <;> cases f <;> simp [String.append_assoc]

/-- The trace line for any colour setting: the same header, then the (possibly highlighted) body. -/
theorem trace_is_header_body (sh : Show) (c : Colour) (t : Format.Tables) (tr : TraceRec) :
    formatTrace sh c t tr
      = joinCols sh (headerCols t tr.timestamp tr.tid) ++ (if c.on then c.hlTrace tr.body else tr.body) := by
  rcases sh with ⟨a, b, c', d, f, g⟩
  simp only [formatTrace, headerCols, joinCols_cons, joinCols_nil,
    enabled, get, colTimestamp, colTidDec, colProcess, formatTimestamp]
  cases a <;> cases d <;> cases f <;> simp [String.append_assoc]

/-- The frame lines: line `i` is `i` spaces followed by the frame's text. -/
theorem frameLines_eq (i : Nat) (fs : List Frame) :
    frameLines i fs = fs.mapIdx (fun k f => spaces (i + k) ++ frameText f) := by
  induction fs generalizing i with
  | nil => rfl
  | cons f fs ih =>
    rw [frameLines, ih, List.mapIdx_cons]
    simp only [Nat.add_zero]
    congr 1
    apply List.mapIdx_eq_mapIdx_iff.mpr
    intro k hk
    simp [Nat.add_assoc, Nat.add_comm 1 k]

/-- **callstack_is_join.**  A callstack text is the header (join of the enabled header columns)
    and one line per frame, `i` spaces of indent for frame `i`, joined by newlines. -/
theorem callstack_is_join (sh : Show) (t : Format.Tables) (cs : Callstack) :
    formatCallstack sh t cs
      = "\n".intercalate (joinCols sh (headerCols t cs.timestamp cs.tid)
          :: cs.frames.mapIdx (fun i f => spaces i ++ frameText f)) := by
  have hf := frameLines_eq 0 cs.frames
  simp only [Nat.zero_add] at hf
  rw [← hf]
  rcases sh with ⟨a, b, c, d, f, g⟩
  simp only [formatCallstack, headerCols, joinCols_cons, joinCols_nil,
    enabled, get, colTimestamp, colTidDec, colProcess, formatTimestamp]
  cases a <;> cases d <;> cases f <;> simp [String.append_assoc]

/-- **log_is_join** (colour off): timestamp text padded to 27, the process padded to 27 between
    two spaces when the record carries a process name, the message; independent of every switch. -/
theorem log_is_join (sh : Show) (t : Format.Tables) (timeString : String) (l : LogRec) :
    formatLog Colour.off t timeString l = joinCols sh (logCols t timeString l) := by
  simp only [formatLog, logCols, Colour.off, colProcess]
  by_cases h : l.process = "" <;>
    simp [h, joinCols_cons, joinCols_nil, enabled, String.append_assoc]

/-! ### switching a column off -/

/-- **column_off** (event lines): for every one of the 2^6 settings and every column `c`, disabling
    `c` yields exactly the join of the other enabled columns. -/
theorem column_off (sh : Show) (c : Switch) (qe : EnumDef) (codes : List (Nat × String)) (t : Format.Tables)
    (e : Kevent) :
    formatKevent (set sh c false) qe codes t e = joinCols sh (without c (keventCols qe codes t e)) := by
  rw [kevent_is_join, joinCols_off]

theorem trace_column_off (sh : Show) (c : Switch) (t : Format.Tables) (tr : TraceRec) :
    formatTrace (set sh c false) Colour.off t tr = joinCols sh (without c (traceCols t tr)) := by
  rw [trace_is_join, joinCols_off]

theorem callstack_column_off (sh : Show) (c : Switch) (t : Format.Tables) (cs : Callstack) :
    formatCallstack (set sh c false) t cs
      = "\n".intercalate (joinCols sh (without c (headerCols t cs.timestamp cs.tid))
          :: cs.frames.mapIdx (fun i f => spaces i ++ frameText f)) := by
  rw [callstack_is_join, joinCols_off]

/-- Log lines have no switchable column: every switch setting gives the same line. -/
theorem log_column_off (sh : Show) (c : Switch) (t : Format.Tables) (timeString : String) (l : LogRec) :
    joinCols (set sh c false) (logCols t timeString l) = joinCols sh (logCols t timeString l) := by
  rw [← log_is_join, ← log_is_join]

/-- **Removing exactly that column** (event lines): with `pre`/`post` the joins of the enabled
    columns before/after `c`, the line is `pre ++ text_c ++ post` when `c` is on and `pre ++ post`
    when it is switched off — nothing else moves or changes. -/
theorem kevent_column_removed (sh : Show) (c : Switch) (qe : EnumDef) (codes : List (Nat × String))
    (t : Format.Tables) (e : Kevent) :
    let cols := keventCols qe codes t e
    formatKevent sh qe codes t e
        = joinCols sh (before c cols) ++ (if get sh c then textOf c cols else "") ++ joinCols sh (after c cols) ∧
    formatKevent (set sh c false) qe codes t e = joinCols sh (before c cols) ++ joinCols sh (after c cols) := by
  intro cols
  rw [kevent_is_join, kevent_is_join]
  cases c
  · exact joinCols_splice sh .timestamp [] _ _ (by simp) (by simp)
  · exact joinCols_splice sh .name [_] _ _ (by simp) (by simp)
  · exact joinCols_splice sh .funcQual [_, _] _ _ (by simp) (by simp)
  · exact joinCols_splice sh .tid [_, _, _] _ _ (by simp) (by simp)
  · exact joinCols_splice sh .process [_, _, _, _] _ _ (by simp) (by simp)
  · exact joinCols_splice sh .args [_, _, _, _, _] [] _ (by simp) (by simp)

/-- The same for the header of trace and callstack lines (columns timestamp, thread id, process);
    the other three switches are not columns of these lines and change nothing. -/
theorem header_column_removed (sh : Show) (c : Switch) (t : Format.Tables) (timestamp tid : Nat) :
    let cols := headerCols t timestamp tid
    (c = .timestamp ∨ c = .tid ∨ c = .process →
      joinCols sh cols
          = joinCols sh (before c cols) ++ (if get sh c then textOf c cols else "") ++ joinCols sh (after c cols) ∧
      joinCols (set sh c false) cols = joinCols sh (before c cols) ++ joinCols sh (after c cols)) ∧
    (c = .name ∨ c = .funcQual ∨ c = .args → ∀ b, joinCols (set sh c b) cols = joinCols sh cols) := by
  intro cols
  constructor
  · rintro (h | h | h) <;> subst h
    · exact joinCols_splice sh .timestamp [] _ _ (by simp) (by simp)
    · exact joinCols_splice sh .tid [_] _ _ (by simp) (by simp)
    · exact joinCols_splice sh .process [_, _] [] _ (by simp) (by simp)
  · rintro (h | h | h) b <;> subst h <;> exact joinCols_unrelated sh _ _ (by simp [cols, headerCols]) b

theorem trace_column_removed (sh : Show) (c : Switch) (t : Format.Tables) (tr : TraceRec)
    (hc : c = .timestamp ∨ c = .tid ∨ c = .process) :
    let cols := headerCols t tr.timestamp tr.tid
    formatTrace sh Colour.off t tr
        = joinCols sh (before c cols) ++ (if get sh c then textOf c cols else "") ++ joinCols sh (after c cols)
          ++ tr.body ∧
    formatTrace (set sh c false) Colour.off t tr
        = joinCols sh (before c cols) ++ joinCols sh (after c cols) ++ tr.body := by
  intro cols
  have h := (header_column_removed sh c t tr.timestamp tr.tid).1 hc
  rw [trace_is_header_body, trace_is_header_body]
  simp only [Colour.off, Bool.false_eq_true, if_false]
  exact ⟨by rw [h.1], by rw [h.2]⟩

/-- The three switches that are not columns of a trace line do not affect it. -/
theorem trace_ignores_other_switches (sh : Show) (c : Switch) (b : Bool) (col : Colour) (t : Format.Tables)
    (tr : TraceRec) (hc : c = .name ∨ c = .funcQual ∨ c = .args) :
    formatTrace (set sh c b) col t tr = formatTrace sh col t tr := by
  rw [trace_is_header_body, trace_is_header_body, (header_column_removed sh c t tr.timestamp tr.tid).2 hc b]

/-! ### the process column -/

/-- **process_column_lookup.**  The process text is `name(pid)` for the pid the thread table holds
    for that tid (name = the entry of the name table, empty when it has none), and `Error: tid N`
    when the tid is absent — and also when the table holds the pid −1, which the code uses as its
    "absent" marker. -/
theorem process_column_lookup (t : Format.Tables) (tid : Nat) :
    (∀ pid, t.threadsPids.lookup tid = some pid → pid ≠ -1 →
        formatProcess t tid = (t.pidsNames.lookup pid).getD "" ++ "(" ++ toString pid ++ ")") ∧
    (t.threadsPids.lookup tid = none → formatProcess t tid = "Error: tid " ++ toString tid) ∧
    (t.threadsPids.lookup tid = some (-1) → formatProcess t tid = "Error: tid " ++ toString tid) := by
  refine ⟨?_, ?_, ?_⟩
  · intro pid h hne; simp [formatProcess, h, hne]
  · intro h; simp [formatProcess, h]
  · intro h; simp [formatProcess, h]

/-- In every builder the process column is that text, padded (27 for event and log lines, 34 for
    trace and callstack headers), looked up for the record's own thread id. -/
theorem process_column_of_builders (qe : EnumDef) (codes : List (Nat × String)) (t : Format.Tables) (e : Kevent)
    (tr : TraceRec) (l : LogRec) (ts : String) :
    textOf .process (keventCols qe codes t e) = padRight 27 (formatProcess t e.tid) ∧
    textOf .process (traceCols t tr) = padRight 34 (formatProcess t tr.tid) ∧
    (l.process ≠ "" → (" " ++ padRight 27 (formatProcess t l.threadIdentifier) ++ " ") ∈ (logCols t ts l).map (·.2)) := by
  refine ⟨rfl, rfl, ?_⟩
  intro h; simp [logCols, h, colProcess]

/-! ### colour -/

/-- **trace_colour_transparent_partial.**  For any eraser `strip` that distributes over
    concatenation: if erasing the highlighted body gives the same as erasing the plain body — an
    assumption about pygments *for this body* (`hlTrace` = highlight followed by `.strip()`) — the
    coloured line and the plain line erase to the same text.
    Partial: for the real pygments the assumption fails when the body contains `\r` or begins/ends
    with a newline (known finding K7); the unconditional statement
    `∀ body, strip (formatTrace sh on …) = strip (formatTrace sh off …)` is false for it. -/
theorem trace_colour_transparent_partial (strip : String → String) (c : Colour) (sh : Show) (t : Format.Tables)
    (tr : TraceRec) (happ : ∀ a b, strip (a ++ b) = strip a ++ strip b)
    (hhl : strip (c.hlTrace tr.body) = strip tr.body) :
    strip (formatTrace sh c t tr) = strip (formatTrace sh Colour.off t tr) := by
  rw [trace_is_header_body, trace_is_header_body, happ, happ]
  cases h : c.on <;> simp [Colour.off, hhl]

/-- The form with `strip (hl s) = s`: when moreover the header is plain text (erasing leaves it
    unchanged), erasing the coloured line gives exactly the colour-off line. -/
theorem trace_colour_transparent_plain_partial (strip : String → String) (c : Colour) (sh : Show) (t : Format.Tables)
    (tr : TraceRec) (happ : ∀ a b, strip (a ++ b) = strip a ++ strip b)
    (hplain : strip (joinCols sh (headerCols t tr.timestamp tr.tid)) = joinCols sh (headerCols t tr.timestamp tr.tid))
    (hon : c.on = true) (hhl : strip (c.hlTrace tr.body) = tr.body) :
    strip (formatTrace sh c t tr) = formatTrace sh Colour.off t tr := by
  rw [trace_is_header_body, trace_is_header_body, happ, hplain]
  simp [Colour.off, hon, hhl]

/-- **log_colour_transparent.**  For any eraser that distributes over concatenation and erases
    `colored` (`strip (colored s c) = strip s`), the coloured log line and the plain one erase to the
    same text: the padding is computed on the plain process text, so colouring cannot move it. -/
theorem log_colour_transparent (strip : String → String) (c : Colour) (t : Format.Tables) (ts : String) (l : LogRec)
    (happ : ∀ a b, strip (a ++ b) = strip a ++ strip b)
    (hcol : ∀ s k, strip (c.colored s k) = strip s) :
    strip (formatLog c t ts l) = strip (formatLog Colour.off t ts l) := by
  simp only [formatLog, Colour.off]
  cases h : c.on <;> by_cases hp : l.process = "" <;> simp [hp, happ, hcol]

/-- With `strip (colored s c) = s` on plain pieces: erasing the coloured log line gives exactly the
    colour-off line, provided the eraser leaves the (plain) pieces and single spaces unchanged. -/
theorem log_colour_transparent_plain (strip : String → String) (c : Colour) (t : Format.Tables) (ts : String) (l : LogRec)
    (happ : ∀ a b, strip (a ++ b) = strip a ++ strip b)
    (hcol : ∀ s k, strip (c.colored s k) = strip s)
    (hplain : ∀ s ∈ (logCols t ts l).map (·.2), strip s = s) :
    strip (formatLog c t ts l) = formatLog Colour.off t ts l := by
  rw [log_colour_transparent strip c t ts l happ hcol, log_is_join {}]
  have : ∀ cols : List Col, (∀ s ∈ cols.map (·.2), strip s = s) → strip "" = "" →
      strip (joinCols {} cols) = joinCols {} cols := by
    intro cols hc h0
    induction cols with
    | nil => exact h0
    | cons x xs ih =>
      rw [joinCols_cons, happ, ih (fun s hs => hc s (by simp_all))]
      by_cases he : enabled {} x.1
      · simp only [he, if_true]; rw [hc x.2 (by simp)]
      · have he' : enabled {} x.1 = false := by simpa using he
        simp only [he', Bool.false_eq_true, if_false]; rw [h0]
  apply this _ hplain
  have h1 := happ "" ""
  have hlen := congrArg String.length h1
  simp only [String.append_empty, String.length_append] at hlen
  have : (strip "").length = 0 := by omega
  exact String.length_eq_zero_iff.mp this

/-! ### non-vacuity -/

private def qe := Gen.Enums.DgbFuncQual
private def tabs : Format.Tables := { threadsPids := [(7, 42), (9, -1)], pidsNames := [(42, "launchd")] }
private def ev : Kevent :=
  { timestamp := 1234, data := [39, 0, 255, 92, 10, 65], values := [], tid := 7, debugid := 0x040c0005,
    eventid := 0x040c0004, qual := 1 }

example : formatKevent { tid := true } qe [(0x040c0004, "BSC_getpid")] tabs ev
    = "1234 " ++ "BSC_getpid (0x40c0004)" ++ spaces 36 ++ "DBG_FUNC_START " ++ "0x7" ++ spaces 9
      ++ "launchd(42)" ++ spaces 16 ++ "b\"'\\x00\\xff\\\\\\nA\"" ++ spaces 17 := by decide +kernel
example : formatKevent { timestamp := false, name := false, process := true, args := false } qe [] tabs
    { ev with tid := 8, qual := 5 } = "Error" ++ spaces 11 ++ "Error: tid 8" ++ spaces 15 := by decide +kernel
example : formatProcess tabs 9 = "Error: tid 9" := by decide +kernel
example : formatTrace { tid := true } Colour.off tabs ⟨5, 7, "getpid(), pid: 42"⟩
    = "5 " ++ "          7 " ++ "launchd(42)" ++ spaces 23 ++ "getpid(), pid: 42" := by decide +kernel
example : formatCallstack {} tabs ⟨5, 7, [⟨0x1000, some "UUID", 0x10⟩, ⟨0xffffffffffffffff1, none, 0⟩]⟩
    = "5 launchd(42)" ++ spaces 23 ++ "\nUUID:0x0000000000000010\n 0xffffffffffffffff1" := by decide +kernel
example : formatLog Colour.termcolor tabs "2024-01-01 00:00:00.000001" ⟨7, "launchd", 42, "hi"⟩
    = "\x1b[32m2024-01-01 00:00:00.000001 \x1b[0m \x1b[35mlaunchd(42)" ++ spaces 16 ++ "\x1b[0m \x1b[97mhi\x1b[0m" := by
  decide +kernel

/-- The colour assumptions are satisfiable by a non-trivial eraser: markers U+E000/U+E001 around
    the coloured text, `strip` deletes the markers. -/
private def mark : Colour := ⟨true, fun s => "\uE000" ++ s ++ "\uE001", fun s _ => "\uE000" ++ s ++ "\uE001"⟩
private def unmark (s : String) : String :=
  String.ofList (s.toList.filter (fun ch => ch ≠ '\uE000' ∧ ch ≠ '\uE001'))
private theorem unmark_append (a b : String) : unmark (a ++ b) = unmark a ++ unmark b := by
  simp [unmark, String.toList_append, List.filter_append, String.ofList_append]
example (t : Format.Tables) (ts : String) (l : LogRec) :
    unmark (formatLog mark t ts l) = unmark (formatLog Colour.off t ts l) :=
  log_colour_transparent unmark mark t ts l unmark_append (by
    intro s k
    simp only [mark, unmark_append]
    have h0 : unmark "\uE000" = "" := by decide +kernel
    have h1 : unmark "\uE001" = "" := by decide +kernel
    rw [h0, h1]; simp)

/-- Shape of known finding K7: a highlighter that rewrites a carriage return to a newline (as the
    pygments lexer does) violates the assumption of `trace_colour_transparent_partial`, and the
    conclusion then fails even for the identity eraser — the hypothesis cannot be dropped. -/
private def crToNl : Colour :=
  ⟨true, fun s => String.ofList (s.toList.map fun ch => if ch = '\r' then '\n' else ch), fun s _ => s⟩
example : formatTrace {} crToNl {} ⟨1, 2, "a\rb"⟩ ≠ formatTrace {} Colour.off {} ⟨1, 2, "a\rb"⟩ := by decide +kernel
example : formatTrace {} crToNl {} ⟨1, 2, "ab"⟩ = formatTrace {} Colour.off {} ⟨1, 2, "ab"⟩ := by decide +kernel

end KdVerif.C14

/-! ## Second part: which tables a line is formatted with (the process-column half)

  Subject: `Trace.run` / `Trace.runAnnot` (Model/Trace, Model/TraceWrites: the whole `TracesParser` as driven by
  `PyKdebugParser.traces` on the tables `set_thread_map` filled) and `Declared.declaredTables` (Model/Declared: a
  plain fold over the prefix whose only state is the two lookup tables and the per-thread pending records; the
  event list an event delivers comes from the declarative pairing specification `Spec/Pairing.emitSpec`).
  Pids are naturals here (the thread map stores unsigned 32-bit pids, records unsigned 64-bit words): the
  formatter's "absent" marker −1 never occurs in the pipeline's tables.
-/
namespace KdVerif.C14
open KdVerif.Trace KdVerif.Declared KdVerif.Format

/-- A fresh `TracesParser` on the tables the thread map filled. -/
def start (tm : ThreadMap) : Trace.PState := { pairing := Pairing.PState.empty, tabs := mapTabs tm }

/-- **thread_map_later_wins.**  The thread map declares, for a thread, the pid of its LAST entry, and names a
    pid by the last entry that carries it. -/
theorem thread_map_later_wins (tm : ThreadMap) (tid pid : Nat) :
    (Decl.ofMap tm).threadsPids.get tid = ((tm.filter fun e => e.1 == tid).getLast?).map (·.2.1) ∧
    (Decl.ofMap tm).pidsNames.get pid = ((tm.filter fun e => e.2.1 == pid).getLast?).map (·.2.2) := by
  constructor
  · have := lookup_reverse_append (tm.map fun e => (e.1, e.2.1)) [] tid
    simp only [List.append_nil, List.lookup_nil, Option.or_none] at this
    simp only [Decl.ofMap, Dict.get, this, List.filter_map, List.getLast?_map, Option.map_map]
    rfl
  · have := lookup_reverse_append (tm.map fun e => (e.2.1, e.2.2)) [] pid
    simp only [List.append_nil, List.lookup_nil, Option.or_none] at this
    simp only [Decl.ofMap, Dict.get, this, List.filter_map, List.getLast?_map, Option.map_map]
    rfl

/-- **tables_are_fold.**  After any prefix on which `feed_generator` raises no exception, the two lookup tables
    (and the per-thread pending records) of the pipeline equal `declaredTables`: the thread map superseded, in
    stream order, by the new-thread records (`threads_pids[new tid] = pid`; the name string of the same thread
    teaches `pids_names[pid]`), exec pairs, terminate-pid records (`threads_pids[emitting tid] = pid`) and sampler
    thread-info records (`threads_pids[tid] = pid`) of the prefix that are delivered to their handler.
    (`hbn`: the code table names no table-writing handler for the page-fault sub-record ids that `handle_mach_vmfault`
    parses in a nested call — true of the bundled table, `C05.bundled_nested_rows`.) -/
theorem tables_are_fold (env : Env) (hbn : BenignNested env) (tm : ThreadMap) (pre : List Kevent)
    (h : (Trace.run env (start tm) pre).2.1 = none) :
    Decl.ofTabs (Trace.run env (start tm) pre).2.2.tabs = declaredTables env tm pre :=
  Declared.tables_are_fold env hbn tm pre h

/-- **process_column_spec.**  Every trace `formatted_traces` yields was completed by some event `e` of the stream
    (`m = pre ++ e :: post`), and the process text of its line — `_format_process` on the tables as they are when
    the trace is yielded — is `name(pid)` for the pid that `declaredTables` of the prefix up to and including `e`
    holds for the trace's thread, and `Error: tid N` when that thread was never declared (`processSpec`). -/
theorem process_column_spec (env : Env) (hbn : BenignNested env) (tm : ThreadMap) (m : List Kevent) (o : TraceOut)
    (T : Tabs)
    (h : (o, T) ∈ runAnnot env (start tm) m) :
    ∃ pre e post, m = pre ++ e :: post ∧ o ∈ (Trace.run env (start tm) (pre ++ [e])).1 ∧
      Format.formatProcess (fmtTables T.threadsPids T.pidsNames) o.tid
        = processSpec (declaredTables env tm (pre ++ [e])) o.tid := by
  obtain ⟨pre, e, post, hm, hne, hT, ho⟩ := mem_runAnnot env (start tm) m o T h
  refine ⟨pre, e, post, hm, ho, ?_⟩
  have := Declared.tables_are_fold env hbn tm (pre ++ [e]) hne
  rw [← this]
  change _ = processSpec (Decl.ofTabs (Trace.run env (start tm) (pre ++ [e])).2.2.tabs) o.tid
  rw [← hT]
  exact formatProcess_eq_spec (Decl.ofTabs T) o.tid

/-- The same for the list the correspondence compares: every entry of `traceProcessColumns` carries the specified
    text for the prefix that ends with the trace's trigger event. -/
theorem trace_process_columns_spec (env : Env) (hbn : BenignNested env) (tm : ThreadMap) (m : List Kevent)
    (x : Nat × Nat × String)
    (h : x ∈ traceProcessColumns env tm m) :
    ∃ pre e post, m = pre ++ e :: post ∧ x.2.2 = processSpec (declaredTables env tm (pre ++ [e])) x.2.1 := by
  simp only [traceProcessColumns, List.mem_map] at h
  obtain ⟨⟨o, T⟩, hmem, rfl⟩ := h
  obtain ⟨pre, e, post, hm, _, hp⟩ := process_column_spec env hbn tm m o T hmem
  exact ⟨pre, e, post, hm, hp⟩

/-- What the specified text is, in the property's words. -/
theorem process_spec_declared (d : Decl) (tid pid : Nat) (h : d.threadsPids.get tid = some pid) :
    processSpec d tid = (d.pidsNames.get pid).getD "" ++ "(" ++ toString pid ++ ")" := by
  simp [processSpec, h]

theorem process_spec_undeclared (d : Decl) (tid : Nat) (h : d.threadsPids.get tid = none) :
    processSpec d tid = "Error: tid " ++ toString tid := by
  simp [processSpec, h]

/-- The process column of the trace line itself (colour off, column enabled): the specified text padded to 34. -/
theorem trace_line_process_column (d : Decl) (tr : TraceRec) :
    textOf .process (traceCols (fmtTables d.threadsPids d.pidsNames) tr) = padRight 34 (processSpec d tr.tid) := by
  rw [(process_column_of_builders Gen.Enums.DgbFuncQual [] _ default tr default "").2.1, formatProcess_eq_spec]

/-- **kevent_process_column_spec.**  Event lines are printed without running the trace decoders: whatever
    records the stream holds, their process column is the specified text for the THREAD MAP ALONE
    (`declaredTables` of the empty prefix), padded to 27. -/
theorem kevent_process_column_spec (env : Env) (qe : EnumDef) (codes : List (Nat × String)) (tm : ThreadMap) (e : Kevent) :
    textOf .process (keventCols qe codes (fmtTables (mapTabs tm).threadsPids (mapTabs tm).pidsNames) e)
      = padRight 27 (processSpec (declaredTables env tm []) e.tid) := by
  rw [(process_column_of_builders qe codes _ e default default "").1]
  exact congrArg (padRight 27) (formatProcess_eq_spec (Decl.ofMap tm) e.tid)

theorem find_sampler_enum :
    (Gen.Decoders.tables.enums.find? (·.name == "SamplerAction")).map (·.iter) = some Gen.Enums.SamplerAction_iter := by
  decide +kernel

/-- With the enum tables reflected from the repository, "the sampler window carries thread information" is
    bit 0 of the first word of its START record (`SAMPLER_TH_INFO = 0x01`). -/
theorem samples_thread_info_is_bit0 (env : Env) (henv : env.tables = Gen.Decoders.tables) (e : Kevent) :
    samplesThreadInfo env e = decide (arg e 0 &&& 1 ≠ 0) := by
  unfold samplesThreadInfo enumNamesOf
  rw [henv]
  have hf := find_sampler_enum
  cases hfind : Gen.Decoders.tables.enums.find? (·.name == "SamplerAction") with
  | none => rw [hfind] at hf; cases hf
  | some d =>
    rw [hfind] at hf
    simp only [Option.map_some, Option.some.injEq] at hf
    simp only [EnumDef.flagsOf, hf, contains_map_filter]
    simp [Gen.Enums.SamplerAction_iter, Gen.Enums.SamplerAction_iter_0]
    have := Nat.mod_two_eq_zero_or_one (arg e 0)
    rcases this with h | h <;> simp [h]

/-! ### non-vacuity: a thread map, a new-thread pair, a terminate-pid record, an undeclared thread -/

private def exEnv : Env :=
  { codes := fun k => [(0x7000004, "TRACE_DATA_NEWTHREAD"), (0x7010004, "TRACE_STRING_NEWTHREAD"),
                       (0x7000010, "TRACE_DATA_THREAD_TERMINATE_PID"), (0x7010010, "TRACE_STRING_PROC_EXIT")].lookup k,
    host := Gen.Host.host, tables := Gen.Decoders.tables, decoders := [],
    dec := fun bs => .ok (String.ofList (bs.map Char.ofNat)) }

private def rec' (ts tid eid : Nat) (vals : List Nat) (data : List Nat) : Kevent :=
  { timestamp := ts, data := data, values := vals, tid := tid, debugid := eid, eventid := eid, qual := 0 }

/-- thread 7 is declared by the map (twice: the later entry wins); thread 7 announces thread 9 of pid 50 and names
    it "new"; thread 9 then reports itself as pid 60; thread 8 is never declared. -/
private def exMap : ThreadMap := [(7, 41, "old"), (7, 42, "launchd")]
private def exStream : List Kevent :=
  [rec' 1 7 0x7010010 [] [120], rec' 2 7 0x7000004 [9, 50, 0, 0] [], rec' 3 9 0x7010010 [] [121],
   rec' 4 7 0x7010004 [] [110, 101, 119], rec' 5 9 0x7010010 [] [122], rec' 6 9 0x7000010 [60, 1, 0, 0] [],
   rec' 7 8 0x7010010 [] [123]]

private theorem exEnv_benign : BenignNested exEnv := by
  intro eid n hr hc
  simp only [vmfaultRange, decide_eq_true_eq] at hr
  have h1 : (eid == 0x7000004) = false := by rw [beq_eq_false_iff_ne]; omega
  have h2 : (eid == 0x7010004) = false := by rw [beq_eq_false_iff_ne]; omega
  have h3 : (eid == 0x7000010) = false := by rw [beq_eq_false_iff_ne]; omega
  have h4 : (eid == 0x7010010) = false := by rw [beq_eq_false_iff_ne]; omega
  simp [exEnv, List.lookup, h1, h2, h3, h4] at hc

example : traceProcessColumns exEnv exMap exStream =
    [(1, 7, "launchd(42)"), (2, 7, "launchd(42)"), (3, 9, "(50)"), (4, 7, "launchd(42)"), (5, 9, "new(50)"),
     (6, 9, "(60)"), (7, 8, "Error: tid 8")] := by decide +kernel

example : (Trace.run exEnv (start exMap) exStream).2.1 = none ∧
    processSpec (declaredTables exEnv exMap (exStream.take 3)) 9 = "(50)" ∧
    processSpec (declaredTables exEnv exMap (exStream.take 4)) 9 = "new(50)" ∧
    processSpec (declaredTables exEnv exMap exStream) 9 = "(60)" ∧
    processSpec (declaredTables exEnv exMap exStream) 8 = "Error: tid 8" := by decide +kernel


/-! ### end to end: the lines of `formatted_traces` on the bytes of a dump (`Model/EndToEnd.lean`) -/

/-- What `_format_trace` reads of a trace whose `str()` is `body`. -/
def recOf (o : TraceOut) (body : String) : TraceRec :=
  { timestamp := (firstOf o.events).timestamp, tid := (firstOf o.events).tid, body := body }

/-- **e2e_line_shape.**  For every readable dump (any bytes `dumpOf` accepts: version 2 or version 3, under any
    reading `plist` of the property lists), every filter configuration, environment
    and column setting: line `i` of `formatted_traces` is `_format_trace` — colour off, on the lookup tables AS THEY ARE
    WHEN TRACE `i` IS YIELDED — of (first record's timestamp, first record's thread id, `str(trace)`) for trace `i` of
    `traces`, in order: `formatted_traces` adds nothing, reorders nothing and drops nothing but the traces from the first
    rendering exception on.  The list ends either with the traces (then the exception, if any, is the trace layer's or
    else the container's) or at the first trace whose text raises (then that exception is reported). -/
theorem e2e_line_shape (env : Env) (obj : TracePipeline.Obj) (sh : Show) (plist : Bytes → Option PView) (file : Bytes)
    (d : TracePipeline.Dump) (cerr : Option PyErr) (hd : EndToEnd.dumpOf plist file = .ok (d, cerr)) :
    let tr := (TracePipeline.traces env obj d).1.traces
    let out := EndToEnd.formattedTraces env obj sh plist file
    (∀ (i : Nat) line, out.1[i]? = some line → ∃ o T body, tr[i]? = some (o, T) ∧ o.text = .ok body ∧
        line = formatTrace sh Colour.off (EndToEnd.fmtTables T) (recOf o body)) ∧
    ((out.1.length = tr.length ∧
        out.2 = match (TracePipeline.traces env obj d).1.err with
                | some e => some e
                | none => cerr) ∨
     (∃ o T e, tr[out.1.length]? = some (o, T) ∧ o.text = .error e ∧ out.2 = some e)) := by
  intro tr out
  have h1 : out.1 = (EndToEnd.formatAll sh tr).1 := EndToEnd.formattedTraces_lines env obj sh plist file d cerr hd
  have h2 := EndToEnd.formattedTraces_err env obj sh plist file d cerr hd
  obtain ⟨s1, s2⟩ := EndToEnd.formatAll_shape sh tr
  refine ⟨?_, ?_⟩
  · intro i line hl
    rw [h1] at hl
    obtain ⟨⟨o, T⟩, body, hp, ht, hline⟩ := s1 i line hl
    exact ⟨o, T, body, hp, ht, hline⟩
  · rw [h1]
    rcases s2 with ⟨hlen, herr⟩ | ⟨⟨o, T⟩, e, hp, ht, herr⟩
    · left
      refine ⟨hlen, ?_⟩
      show (EndToEnd.formattedTraces env obj sh plist file).2 = _
      rw [h2]
      show (match (EndToEnd.formatAll sh tr).2 with | some e => some e | none => _) = _
      rw [herr]
      cases (TracePipeline.traces env obj d).1.err <;> rfl
    · right
      refine ⟨o, T, e, hp, ht, ?_⟩
      show (EndToEnd.formattedTraces env obj sh plist file).2 = _
      rw [h2]
      show (match (EndToEnd.formatAll sh tr).2 with | some e => some e | none => _) = _
      rw [herr]

/-- … and an unreadable dump (neither version 2 nor version 3, or a header / thread-map chunk that does not parse) yields
    no line, only its exception. -/
theorem e2e_unreadable (env : Env) (obj : TracePipeline.Obj) (sh : Show) (plist : Bytes → Option PView) (file : Bytes)
    (e : PyErr) (h : EndToEnd.dumpOf plist file = .error e) : EndToEnd.formattedTraces env obj sh plist file = ([], some e) :=
  EndToEnd.formattedTraces_unreadable env obj sh plist file e h

/-- **e2e_process_column.**  Line `i` of `formatted_traces` is the concatenation of the enabled columns of its trace, and
    its process column names the process the dump declares for the trace's thread AT THE TRIGGER EVENT: there is an
    event `e` of the stream fed to the decoders (`fedEvents = pre ++ e :: post`) whose `feed` completed trace `i`, and
    the column is `processSpec` — `name(pid)` / `Error: tid N` — of `declaredTables` (thread map superseded by the
    new-thread, exec, terminate-pid and sampler records) of the prefix up to and including `e`, padded to 34.
    The stream is the one the decoders are fed: with a thread / class / subclass filter the declaring records of other
    threads or classes are not seen (known finding K3 for the process filter); without one it is the whole dump
    (`e2e_process_column_unfiltered`). -/
theorem e2e_process_column (env : Env) (hbn : BenignNested env) (obj : TracePipeline.Obj) (sh : Show)
    (plist : Bytes → Option PView) (file : Bytes)
    (d : TracePipeline.Dump) (cerr : Option PyErr) (hd : EndToEnd.dumpOf plist file = .ok (d, cerr))
    (i : Nat) (line : String) (hl : (EndToEnd.formattedTraces env obj sh plist file).1[i]? = some line) :
    ∃ o T body pre e post,
      (TracePipeline.traces env obj d).1.traces[i]? = some (o, T) ∧ o.text = .ok body ∧
      TracePipeline.fedEvents obj.cfg d = pre ++ e :: post ∧
      o ∈ (Trace.run env (start d.threadMap) (pre ++ [e])).1 ∧
      line = joinCols sh (traceCols (EndToEnd.fmtTables T) (recOf o body)) ∧
      textOf .process (traceCols (EndToEnd.fmtTables T) (recOf o body))
        = padRight 34 (processSpec (declaredTables env d.threadMap (pre ++ [e])) o.tid) := by
  obtain ⟨o, T, body, hp, ht, hline⟩ := (e2e_line_shape env obj sh plist file d cerr hd).1 i line hl
  have hmem : (o, T) ∈ runAnnot env (start d.threadMap) (TracePipeline.fedEvents obj.cfg d) :=
    EndToEnd.mem_traces env obj d (o, T) (List.mem_of_getElem? hp)
  obtain ⟨pre, e, post, hm, ho, hproc⟩ := process_column_spec env hbn d.threadMap _ o T hmem
  refine ⟨o, T, body, pre, e, post, hp, ht, hm, ho, ?_, ?_⟩
  · rw [hline, trace_is_join]
  · rw [(process_column_of_builders Gen.Enums.DgbFuncQual [] _ default (recOf o body) default "").2.1,
      EndToEnd.fmtTables_eq]
    exact congrArg (padRight 34) hproc

/-- The same without thread / class / subclass filter (any process filter): the trigger event splits THE DUMP's events,
    i.e. the column is what the whole dump declares up to and including that event. -/
theorem e2e_process_column_unfiltered (env : Env) (hbn : BenignNested env) (obj : TracePipeline.Obj) (sh : Show)
    (plist : Bytes → Option PView) (file : Bytes) (d : TracePipeline.Dump) (cerr : Option PyErr)
    (hd : EndToEnd.dumpOf plist file = .ok (d, cerr))
    (h1 : obj.cfg.filterTid = none) (h2 : obj.cfg.filterClass = []) (h3 : obj.cfg.filterSubclass = [])
    (i : Nat) (line : String) (hl : (EndToEnd.formattedTraces env obj sh plist file).1[i]? = some line) :
    ∃ o T body pre e post,
      (TracePipeline.traces env obj d).1.traces[i]? = some (o, T) ∧ o.text = .ok body ∧
      d.events = pre ++ e :: post ∧
      line = joinCols sh (traceCols (EndToEnd.fmtTables T) (recOf o body)) ∧
      textOf .process (traceCols (EndToEnd.fmtTables T) (recOf o body))
        = padRight 34 (processSpec (declaredTables env d.threadMap (pre ++ [e])) o.tid) := by
  obtain ⟨o, T, body, pre, e, post, hp, ht, hm, _, hline, hcol⟩ :=
    e2e_process_column env hbn obj sh plist file d cerr hd i line hl
  rw [EndToEnd.fedEvents_nofilter obj.cfg d h1 h2 h3] at hm
  exact ⟨o, T, body, pre, e, post, hp, ht, hm, hline, hcol⟩

/-! #### non-vacuity: the 740-byte example dump of `Proofs/EndToEnd` -/

theorem e2e_exEnv_benign : BenignNested EndToEnd.exEnv := by
  intro eid n hr hc
  simp only [vmfaultRange, decide_eq_true_eq] at hr
  have h1 : (eid == 0x7000004) = false := by rw [beq_eq_false_iff_ne]; omega
  have h2 : (eid == 0x7010004) = false := by rw [beq_eq_false_iff_ne]; omega
  have h4 : (eid == 0x7010010) = false := by rw [beq_eq_false_iff_ne]; omega
  simp [EndToEnd.exEnv, List.lookup, h1, h2, h4] at hc

/-- six lines; thread 9 is shown as `(50)` once thread 7's new-thread record has declared it and as `new(50)` once the
    name string has arrived; thread 8 is never declared; with the process column off and the thread column on. -/
example :
    EndToEnd.formattedTraces EndToEnd.exEnv {} {} EndToEnd.noPlist (Spec.encodeV2 EndToEnd.exFile) =
      (["1 launchd(42)                       Process exit name: x",
        "2 launchd(42)                       New thread 9 of parent: 50",
        "3 (50)                              Process exit name: y",
        "4 launchd(42)                       New thread of parent: new",
        "5 new(50)                           Process exit name: z",
        "6 Error: tid 8                      Process exit name: {"], none) ∧
    (EndToEnd.formattedTraces EndToEnd.exEnv {} { process := false, tid := true } EndToEnd.noPlist (Spec.encodeV2 EndToEnd.exFile)).1.take 2 =
      ["1           7 Process exit name: x", "2           7 New thread 9 of parent: 50"] ∧
    (EndToEnd.dumpOf EndToEnd.noPlist (Spec.encodeV2 EndToEnd.exFile)).toOption.map (fun p =>
        (processSpec (declaredTables EndToEnd.exEnv p.1.threadMap (p.1.events.take 3)) 9,
         processSpec (declaredTables EndToEnd.exEnv p.1.threadMap (p.1.events.take 5)) 9,
         processSpec (declaredTables EndToEnd.exEnv p.1.threadMap (p.1.events.take 6)) 8))
      = some ("(50)", "new(50)", "Error: tid 8") := by
  decide +kernel

end KdVerif.C14

/-! ## Third part: translation tie — the source text of the line builders, interpreted, is the model

  `tools/gen_pyir_fm.py` translates `_format_timestamp`, `_format_process`, `_format_kevent`, `_format_trace`,
  `_format_callstack`, `_format_log` of `pykdebugparser/pykdebugparser.py` (pure `ast`, on every run) into the
  Python-subset IR of `Model/PyIRFm` (`Gen/PyIRFm.lean`): f-strings as lists of pieces with the format specifications
  `<N` / `>N` / `016x`, `+`, `str()`, `hex()`, `' ' * i`, `'\n'.join(…)`, conditional expressions, the two dict lookups with
  their defaults, the trace-code map, `DgbFuncQual(q).name` under `try/except ValueError`, the `enumerate` loop, the calls
  `self._format_timestamp(…)` / `self._format_process(…)` (answered by interpreting the translated callee), the two colour
  operations as the abstract `Colour`.  Both spellings of a conditional append (`x += E if c else ''` / `if c: x += E`) are
  one node; the alias `tid = event.tid` is inlined.  `PyIRFm.runKevent` … interpret a method on a `Ctx`
  (switches, colour, tables, the reflected `DgbFuncQual`, which wall-clock attributes are set).

  So the subject of `kevent_is_join`, `column_off`, `process_column_lookup`, `process_column_spec`, `e2e_line_shape` … —
  `Format.formatKevent / formatTrace / formatCallstack / formatLog / formatProcess / formatTimestamp` — is the translated
  source, for every setting and argument.  OUTSIDE the tie (as outside the model): the wall-clock branch of
  `_format_timestamp` (the opaque statement `.wallClock`, answered `.error .unmodelled`), `str(trace)`, `str(uuid)`,
  `strftime`, pygments and termcolor; the Python format primitives are the functions of `Model/Format`. -/
namespace KdVerif.C14
open KdVerif.Format KdVerif.PyIRFm
open KdVerif.Filters (LogRec)

/-- **The methods generated from the source text are, node for node, the ones the theorems below were proved for**
    (`Spec/PyIRFmExpected`, quoting the Python), and the translator met nothing outside the subset. -/
theorem source_is_expected_ir :
    Gen.PyIRFm.formatTimestamp = PyIRFm.Expected.formatTimestamp ∧
    Gen.PyIRFm.formatProcess = PyIRFm.Expected.formatProcess ∧
    Gen.PyIRFm.formatKevent = PyIRFm.Expected.formatKevent ∧
    Gen.PyIRFm.formatTrace = PyIRFm.Expected.formatTrace ∧
    Gen.PyIRFm.formatCallstack = PyIRFm.Expected.formatCallstack ∧
    Gen.PyIRFm.formatLog = PyIRFm.Expected.formatLog ∧
    Gen.PyIRFm.notes = [] := by decide

/-- the generated program is the expected one -/
theorem source_prog_is_expected : Gen.PyIRFm.prog = PyIRFm.Expected.prog := by
  obtain ⟨h1, h2, h3, h4, h5, h6, _⟩ := source_is_expected_ir
  simp only [Gen.PyIRFm.prog, PyIRFm.Expected.prog, h1, h2, h3, h4, h5, h6]

/-- **`_format_timestamp` of the source, interpreted**: when at least one of the five wall-clock attributes is `None`
    (the model's assumption; `tm` says which are set) it is `formatTimestamp` = `str(ts) + ' '`; when all five are set the
    interpreter reaches the opaque wall-clock branch and answers `unmodelled` — that branch is outside the model. -/
theorem format_timestamp_ir_eq_model (sh : Show) (c : Colour) (t : Format.Tables) (qe : EnumDef) (tm : TimeSet) (ts : Nat) :
    runTimestamp Gen.PyIRFm.prog ⟨sh, c, t, qe, tm⟩ ts =
      if tm.anyNone then .ok (formatTimestamp ts) else .error .unmodelled := by
  rw [source_prog_is_expected]; exact runTimestamp_expected ⟨sh, c, t, qe, tm⟩ ts

/-- **`_format_process` of the source, interpreted, is `formatProcess`** — for every pair of tables and every thread id
    (so `process_column_lookup`, `process_column_spec`, `e2e_process_column` speak about the translated source). -/
theorem format_process_ir_eq_model (sh : Show) (c : Colour) (t : Format.Tables) (qe : EnumDef) (tm : TimeSet) (tid : Nat) :
    runProcess Gen.PyIRFm.prog ⟨sh, c, t, qe, tm⟩ tid = .ok (formatProcess t tid) := by
  rw [source_prog_is_expected]; exact runProcess_expected ⟨sh, c, t, qe, tm⟩ tid

/-- **`_format_kevent` of the source, interpreted, is `formatKevent`** — for all 2^6 switch settings, every enum, code
    map, pair of tables and event (`_format_timestamp` on its tick branch). -/
theorem format_kevent_ir_eq_model (sh : Show) (c : Colour) (t : Format.Tables) (qe : EnumDef) (tm : TimeSet)
    (htm : tm.anyNone = true) (codes : List (Nat × String)) (e : Kevent) :
    runKevent Gen.PyIRFm.prog ⟨sh, c, t, qe, tm⟩ codes e = .ok (formatKevent sh qe codes t e) := by
  rw [source_prog_is_expected]; exact runKevent_expected ⟨sh, c, t, qe, tm⟩ htm codes e

/-- **`_format_trace` of the source, interpreted, is `formatTrace`** — every switch setting, every colour machinery
    (`highlight(…).strip()` = `c.hlTrace`), every pair of tables, every trace. -/
theorem format_trace_ir_eq_model (sh : Show) (c : Colour) (t : Format.Tables) (qe : EnumDef) (tm : TimeSet)
    (htm : tm.anyNone = true) (tr : TraceRec) :
    runTrace Gen.PyIRFm.prog ⟨sh, c, t, qe, tm⟩ tr = .ok (formatTrace sh c t tr) := by
  rw [source_prog_is_expected]; exact runTrace_expected ⟨sh, c, t, qe, tm⟩ htm tr

/-- **`_format_callstack` of the source, interpreted, is `formatCallstack`** — every switch setting, pair of tables and
    callstack (any number of frames: the `enumerate` loop by induction). -/
theorem format_callstack_ir_eq_model (sh : Show) (c : Colour) (t : Format.Tables) (qe : EnumDef) (tm : TimeSet)
    (htm : tm.anyNone = true) (cs : Callstack) :
    runCallstack Gen.PyIRFm.prog ⟨sh, c, t, qe, tm⟩ cs = .ok (formatCallstack sh t cs) := by
  rw [source_prog_is_expected]; exact runCallstack_expected ⟨sh, c, t, qe, tm⟩ htm cs

/-- **`_format_log` of the source, interpreted, is `formatLog`** — every colour machinery (`colored(s, c)` = `c.colored`),
    pair of tables, time text and log record; whatever the switches and the wall-clock attributes are (the method
    consults none of them). -/
theorem format_log_ir_eq_model (sh : Show) (c : Colour) (t : Format.Tables) (qe : EnumDef) (tm : TimeSet)
    (timeString : String) (l : LogRec) :
    runLog Gen.PyIRFm.prog ⟨sh, c, t, qe, tm⟩ timeString l = .ok (formatLog c t timeString l) := by
  rw [source_prog_is_expected]; exact runLog_expected ⟨sh, c, t, qe, tm⟩ timeString l

/-- The column theorems, read on the translated source: the interpreted `_format_kevent` is the join of the enabled
    columns (`kevent_is_join` through `format_kevent_ir_eq_model`). -/
theorem kevent_ir_is_join (sh : Show) (c : Colour) (t : Format.Tables) (qe : EnumDef) (tm : TimeSet)
    (htm : tm.anyNone = true) (codes : List (Nat × String)) (e : Kevent) :
    runKevent Gen.PyIRFm.prog ⟨sh, c, t, qe, tm⟩ codes e = .ok (joinCols sh (keventCols qe codes t e)) := by
  rw [format_kevent_ir_eq_model sh c t qe tm htm, kevent_is_join]

/-- … and the interpreted `_format_trace` is the join of the enabled header columns followed by the body. -/
theorem trace_ir_is_header_body (sh : Show) (c : Colour) (t : Format.Tables) (qe : EnumDef) (tm : TimeSet)
    (htm : tm.anyNone = true) (tr : TraceRec) :
    runTrace Gen.PyIRFm.prog ⟨sh, c, t, qe, tm⟩ tr =
      .ok (joinCols sh (headerCols t tr.timestamp tr.tid) ++ (if c.on then c.hlTrace tr.body else tr.body)) := by
  rw [format_trace_ir_eq_model sh c t qe tm htm, trace_is_header_body]

/-! ### non-vacuity: the generated methods on concrete values -/

private instance exceptDecEq {ε α : Type} [DecidableEq ε] [DecidableEq α] : DecidableEq (Except ε α)
  | .ok a, .ok b => if h : a = b then isTrue (by rw [h]) else isFalse (by intro e; cases e; exact h rfl)
  | .error a, .error b => if h : a = b then isTrue (by rw [h]) else isFalse (by intro e; cases e; exact h rfl)
  | .ok _, .error _ => isFalse (by intro e; cases e)
  | .error _, .ok _ => isFalse (by intro e; cases e)

private def irTabs : Format.Tables := { threadsPids := [(7, 42), (9, -1)], pidsNames := [(42, "launchd")] }
private def irCx (sh : Show) (c : Colour) : Ctx := ⟨sh, c, irTabs, Gen.Enums.DgbFuncQual, { numer := true, denom := true }⟩
private def irEv : Kevent :=
  { timestamp := 1234, data := [39, 0, 255, 92, 10, 65], values := [], tid := 7, debugid := 0x040c0005,
    eventid := 0x040c0004, qual := 1 }

/-- the hypothesis `anyNone` is met by the command-line tool's setting (none of the five set) and by partial settings -/
example : ({} : TimeSet).anyNone = true ∧ ({ numer := true, denom := true } : TimeSet).anyNone = true := by decide

/-- an event line through the generated `_format_kevent` (known code, qualifier name, hex tid, declared process, bytes
    with quote / escape characters) … -/
example : runKevent Gen.PyIRFm.prog (irCx { tid := true } Colour.off) [(0x040c0004, "BSC_getpid")] irEv
    = .ok ("1234 " ++ "BSC_getpid (0x40c0004)" ++ spaces 36 ++ "DBG_FUNC_START " ++ "0x7" ++ spaces 9
      ++ "launchd(42)" ++ spaces 16 ++ "b\"'\\x00\\xff\\\\\\nA\"" ++ spaces 17) := by decide +kernel

/-- … the `except ValueError` branch and an undeclared thread … -/
example : runKevent Gen.PyIRFm.prog (irCx { timestamp := false, name := false, process := true, args := false } Colour.off) []
    { irEv with tid := 8, qual := 5 } = .ok ("Error" ++ spaces 11 ++ "Error: tid 8" ++ spaces 15) := by decide +kernel

/-- … `_format_process` on the `-1` marker, `_format_timestamp` on both of its branches … -/
example : runProcess Gen.PyIRFm.prog (irCx {} Colour.off) 9 = .ok "Error: tid 9" ∧
    runTimestamp Gen.PyIRFm.prog (irCx {} Colour.off) 77 = .ok "77 " ∧
    runTimestamp Gen.PyIRFm.prog ⟨{}, Colour.off, irTabs, Gen.Enums.DgbFuncQual, ⟨true, true, true, true, true⟩⟩ 77
      = .error .unmodelled := by decide +kernel

/-- … a trace line, a callstack of two frames (attributed / unattributed, the second indented by one space) and a
    coloured log line through the generated methods. -/
example : runTrace Gen.PyIRFm.prog (irCx { tid := true } Colour.off) ⟨5, 7, "getpid(), pid: 42"⟩
    = .ok ("5 " ++ "          7 " ++ "launchd(42)" ++ spaces 23 ++ "getpid(), pid: 42") := by decide +kernel
example : runCallstack Gen.PyIRFm.prog (irCx {} Colour.off) ⟨5, 7, [⟨0x1000, some "UUID", 0x10⟩, ⟨0xffffffffffffffff1, none, 0⟩]⟩
    = .ok ("5 launchd(42)" ++ spaces 23 ++ "\nUUID:0x0000000000000010\n 0xffffffffffffffff1") := by decide +kernel
example : runLog Gen.PyIRFm.prog (irCx {} Colour.termcolor) "2024-01-01 00:00:00.000001" ⟨7, "launchd", 42, "hi"⟩
    = .ok ("\x1b[32m2024-01-01 00:00:00.000001 \x1b[0m \x1b[35mlaunchd(42)" ++ spaces 16 ++ "\x1b[0m \x1b[97mhi\x1b[0m") := by
  decide +kernel

end KdVerif.C14

/-! ### Translation tie: `--show-tid` / `--color` reach the line builders

  (`tools/gen_pyir_cli.py` → `Gen/PyIRCli.lean`; IR and interpreter `Model/PyIRCli`; expected terms `Spec/PyIRCliExpected`;
  see `Props/C12` / `C13` for the filter side.)  From the command line to the printed line, everything in between
  translated from the source text: the command callback of `__main__.py` assigns the options to a fresh parser object
  (`__init__` supplies the rest), calls `parser.formatted_x(dump)` — the `map` of `pykdebugparser.py` — which calls
  `self._format_x(item…)` — the line builders of the first tie above —, and `print_with_count` prints.  Only the listing
  `self.<source>(…)` stays a parameter (`src`: what it delivers as a function of the object and the dump — C12 / C13), and
  the tables `t` at the moment a line is built (C14 above).  `c` is the colour machinery (pygments / termcolor), switched
  by the object's `color` attribute. -/
namespace KdVerif.C14
open KdVerif.Format KdVerif.PyIRCli
open KdVerif.Filters (LogRec)

/-- **The terms the translator generates for the glue of this property are the expected ones**: `print_with_count`, the
    four printing commands with their option declarations (`--show-tid` / `--no-show-tid` default `False`,
    `--color` / `--no-color` default `True`, on `traces` only), `__init__` (`show_*`, `color` and the wall-clock defaults),
    the four maps; nothing met that the translator could not express. -/
theorem cli_source_is_expected_ir :
    Gen.PyIRCli.printWithCount = PyIRCli.Expected.printWithCount ∧
    Gen.PyIRCli.kevents = PyIRCli.Expected.kevents ∧
    Gen.PyIRCli.traces = PyIRCli.Expected.traces ∧
    Gen.PyIRCli.callstacks = PyIRCli.Expected.callstacks ∧
    Gen.PyIRCli.logs = PyIRCli.Expected.logs ∧
    Gen.PyIRCli.init = PyIRCli.Expected.init ∧
    Gen.PyIRCli.formattedKevents = PyIRCli.Expected.formattedKevents ∧
    Gen.PyIRCli.formattedTraces = PyIRCli.Expected.formattedTraces ∧
    Gen.PyIRCli.formattedCallstacks = PyIRCli.Expected.formattedCallstacks ∧
    Gen.PyIRCli.formattedLogs = PyIRCli.Expected.formattedLogs ∧
    Gen.PyIRCli.notes = [] := by decide

/-- the generated program record is the expected one -/
theorem cli_prog_is_expected : Gen.PyIRCli.prog = PyIRCli.Expected.prog := by
  obtain ⟨h1, _, _, _, _, h2, h3, h4, h5, h6, _⟩ := cli_source_is_expected_ir
  simp only [Gen.PyIRCli.prog, PyIRCli.Expected.prog, h1, h2, h3, h4, h5, h6]

/-- What the translated line builders read of the parser object: the six column switches, `color` (switching the given
    colour machinery `c`), and that no wall-clock parameter is set; `t` / `qe` are the tables at that moment and the
    reflected `DgbFuncQual`. -/
def ctxOf (c : Colour) (t : Format.Tables) (qe : EnumDef) (o : Obj) : Option PyIRFm.Ctx :=
  match showOfObj o, colorOfObj o with
  | some sh, some col => if wallClockUnset o then some ⟨sh, { c with on := col }, t, qe, {}⟩ else none
  | _, _ => none

theorem ctxOf_objWith (c : Colour) (t : Format.Tables) (qe : EnumDef) (tid proc cls sub : Val) (st col : Bool) :
    ctxOf c t qe (objWith tid proc cls sub (.bool st) (.bool col)) = some ⟨{ tid := st }, { c with on := col }, t, qe, {}⟩ := by
  simp only [ctxOf, show_objWith, color_objWith, (unset_objWith ..).1, if_true]

/-- `self.kevents(kdebug)` = `src`, `self._format_kevent(e, codes)` = the TRANSLATED builder; `dc` is what
    `default_trace_codes()` returns. -/
def keventMethods {δ : Type} (dc : List (Nat × String)) (c : Colour) (t : Format.Tables) (qe : EnumDef)
    (src : Obj → δ → List Kevent × Option PyErr) : Methods δ Kevent (List (Nat × String)) :=
  { source := fun m o args dump =>
      if m = "kevents" then (match args with | [.kdebug] => src o dump | _ => ([], some .unmodelled))
      else ([], some .attributeError)
    formatter := fun m o e args =>
      if m = "_format_kevent" then
        match ctxOf c t qe o, args with
        | some cx, [.codes k] => PyIRFm.runKevent Gen.PyIRFm.prog cx k e
        | some cx, [.defaultCodes] => PyIRFm.runKevent Gen.PyIRFm.prog cx dc e
        | _, _ => .error .unmodelled
      else .error .attributeError }

/-- `self.traces(kdebug, None)` = `src`, `self._format_trace(t)` = the translated builder. -/
def traceMethods {δ : Type} (c : Colour) (t : Format.Tables) (qe : EnumDef)
    (src : Obj → δ → List TraceRec × Option PyErr) : Methods δ TraceRec Unit :=
  { source := fun m o args dump =>
      if m = "traces" then (match args with | [.kdebug, .none] => src o dump | _ => ([], some .unmodelled))
      else ([], some .attributeError)
    formatter := fun m o tr args =>
      if m = "_format_trace" then
        match ctxOf c t qe o, args with
        | some cx, [] => PyIRFm.runTrace Gen.PyIRFm.prog cx tr
        | _, _ => .error .unmodelled
      else .error .attributeError }

/-- `self.callstacks(kdebug, None)` = `src`, `self._format_callstack(t)` = the translated builder. -/
def callstackMethods {δ : Type} (c : Colour) (t : Format.Tables) (qe : EnumDef)
    (src : Obj → δ → List Callstack × Option PyErr) : Methods δ Callstack Unit :=
  { source := fun m o args dump =>
      if m = "callstacks" then (match args with | [.kdebug, .none] => src o dump | _ => ([], some .unmodelled))
      else ([], some .attributeError)
    formatter := fun m o cs args =>
      if m = "_format_callstack" then
        match ctxOf c t qe o, args with
        | some cx, [] => PyIRFm.runCallstack Gen.PyIRFm.prog cx cs
        | _, _ => .error .unmodelled
      else .error .attributeError }

/-- `self.os_log_events(kdebug)` = `src` (each record with its `strftime` text), `self._format_log(t)` = the translated
    builder. -/
def logMethods {δ : Type} (c : Colour) (t : Format.Tables) (qe : EnumDef)
    (src : Obj → δ → List (String × LogRec) × Option PyErr) : Methods δ (String × LogRec) Unit :=
  { source := fun m o args dump =>
      if m = "os_log_events" then (match args with | [.kdebug] => src o dump | _ => ([], some .unmodelled))
      else ([], some .attributeError)
    formatter := fun m o l args =>
      if m = "_format_log" then
        match ctxOf c t qe o, args with
        | some cx, [] => PyIRFm.runLog Gen.PyIRFm.prog cx l.1 l.2
        | _, _ => .error .unmodelled
      else .error .attributeError }

theorem lookup_formatted :
    Gen.PyIRCli.prog.formatted.lookup "formatted_kevents" = some PyIRCli.Expected.formattedKevents ∧
    Gen.PyIRCli.prog.formatted.lookup "formatted_traces" = some PyIRCli.Expected.formattedTraces ∧
    Gen.PyIRCli.prog.formatted.lookup "formatted_callstacks" = some PyIRCli.Expected.formattedCallstacks ∧
    Gen.PyIRCli.prog.formatted.lookup "formatted_logs" = some PyIRCli.Expected.formattedLogs := by
  rw [cli_prog_is_expected]; decide

/-- **`kevents [--show-tid]`: every printed line is `formatKevent` with the thread-id column exactly as the option says**
    (all other columns on, as `__init__` leaves them; the default code table): the translated command, the translated
    `formatted_kevents` and the translated `_format_kevent`, composed, print `print_with_count` of the `formatKevent` lines
    of whatever `self.kevents` lists for the object the command built; the listing's exception surfaces unless the loop
    broke first. -/
theorem kevents_lines_ir_eq_model {δ τ : Type} (dc : List (Nat × String)) (c : Colour) (t : Format.Tables) (qe : EnumDef)
    (src : Obj → δ → List Kevent × Option PyErr) (pa : δ → Except PyErr τ) (jd : τ → String → Int → Except PyErr String)
    (g : Given) (hp : g.process = none) (hc : g.color = none) (dump : δ) :
    run Gen.PyIRCli.prog (Gen.PyIRCli.prog.formattedVia (keventMethods dc c t qe src) pa jd) Gen.PyIRCli.kevents g.args dump =
      pwcResult ((src (keventsObj (Opts.ofGiven g)) dump).1.map (formatKevent (showOf (Opts.ofGiven g)) qe dc t),
                 (src (keventsObj (Opts.ofGiven g)) dump).2) (Opts.ofGiven g).count := by
  have hrun := run_kevents_expected (Gen.PyIRCli.prog.formattedVia (keventMethods dc c t qe src) pa jd) g hp hc dump
  rw [← cli_prog_is_expected, ← cli_source_is_expected_ir.2.1] at hrun
  rw [hrun]
  congr 1
  simp only [Prog.formattedVia, lookup_formatted.1, runFormatted_kevents, codesArg]
  rw [mapGen_ok _ (formatKevent (showOf (Opts.ofGiven g)) qe dc t)]
  · simp [keventMethods]
  · intro e
    simp only [keventMethods, if_true, keventsObj, ctxOf_objWith]
    exact format_kevent_ir_eq_model _ _ t qe {} (by decide) dc e

/-- **`traces [--show-tid] [--no-color]`: every printed line is `formatTrace` with the thread-id column and the colour
    switch exactly as the options say** (`--color` is the default: the body goes through the highlighter `c.hlTrace`). -/
theorem traces_lines_ir_eq_model {δ τ : Type} (c : Colour) (t : Format.Tables) (qe : EnumDef)
    (src : Obj → δ → List TraceRec × Option PyErr) (pa : δ → Except PyErr τ) (jd : τ → String → Int → Except PyErr String)
    (g : Given) (dump : δ) :
    run Gen.PyIRCli.prog (Gen.PyIRCli.prog.formattedVia (traceMethods c t qe src) pa jd) Gen.PyIRCli.traces g.args dump =
      pwcResult ((src (tracesObj (Opts.ofGiven g)) dump).1.map
                   (formatTrace (showOf (Opts.ofGiven g)) { c with on := (Opts.ofGiven g).color } t),
                 (src (tracesObj (Opts.ofGiven g)) dump).2) (Opts.ofGiven g).count := by
  have hrun := run_traces_expected (Gen.PyIRCli.prog.formattedVia (traceMethods c t qe src) pa jd) g dump
  rw [← cli_prog_is_expected, ← cli_source_is_expected_ir.2.2.1] at hrun
  rw [hrun]
  congr 1
  simp only [Prog.formattedVia, lookup_formatted.2.1, runFormatted_traces, givenArg]
  rw [mapGen_ok _ (formatTrace (showOf (Opts.ofGiven g)) { c with on := (Opts.ofGiven g).color } t)]
  · simp [traceMethods]
  · intro tr
    simp only [traceMethods, if_true, tracesObj, ctxOf_objWith]
    exact format_trace_ir_eq_model _ _ t qe {} (by decide) tr

/-- **`callstacks [--show-tid]`: every printed text is `formatCallstack` with the thread-id column as the option says.** -/
theorem callstacks_lines_ir_eq_model {δ τ : Type} (c : Colour) (t : Format.Tables) (qe : EnumDef)
    (src : Obj → δ → List Callstack × Option PyErr) (pa : δ → Except PyErr τ) (jd : τ → String → Int → Except PyErr String)
    (g : Given) (hcf : g.classFilters = []) (hsf : g.subclassFilters = []) (hc : g.color = none) (dump : δ) :
    run Gen.PyIRCli.prog (Gen.PyIRCli.prog.formattedVia (callstackMethods c t qe src) pa jd) Gen.PyIRCli.callstacks g.args dump =
      pwcResult ((src (plainObj (Opts.ofGiven g)) dump).1.map (formatCallstack (showOf (Opts.ofGiven g)) t),
                 (src (plainObj (Opts.ofGiven g)) dump).2) (Opts.ofGiven g).count := by
  have hrun := run_callstacks_expected (Gen.PyIRCli.prog.formattedVia (callstackMethods c t qe src) pa jd) g hcf hsf hc dump
  rw [← cli_prog_is_expected, ← cli_source_is_expected_ir.2.2.2.1] at hrun
  rw [hrun]
  congr 1
  simp only [Prog.formattedVia, lookup_formatted.2.2.1, runFormatted_callstacks, givenArg]
  rw [mapGen_ok _ (formatCallstack (showOf (Opts.ofGiven g)) t)]
  · simp [callstackMethods]
  · intro cs
    simp only [callstackMethods, if_true, plainObj, ctxOf_objWith]
    exact format_callstack_ir_eq_model _ _ t qe {} (by decide) cs

/-- **`logs`: every printed line is `formatLog` with colour ON** — the command has no colour option and `__init__` sets
    `color = True`; `--show-tid` is accepted and assigned, but `_format_log` consults no column switch. -/
theorem logs_lines_ir_eq_model {δ τ : Type} (c : Colour) (t : Format.Tables) (qe : EnumDef)
    (src : Obj → δ → List (String × LogRec) × Option PyErr) (pa : δ → Except PyErr τ)
    (jd : τ → String → Int → Except PyErr String)
    (g : Given) (hcf : g.classFilters = []) (hsf : g.subclassFilters = []) (hc : g.color = none) (dump : δ) :
    run Gen.PyIRCli.prog (Gen.PyIRCli.prog.formattedVia (logMethods c t qe src) pa jd) Gen.PyIRCli.logs g.args dump =
      pwcResult ((src (plainObj (Opts.ofGiven g)) dump).1.map (fun l => formatLog { c with on := true } t l.1 l.2),
                 (src (plainObj (Opts.ofGiven g)) dump).2) (Opts.ofGiven g).count := by
  have hrun := run_logs_expected (Gen.PyIRCli.prog.formattedVia (logMethods c t qe src) pa jd) g hcf hsf hc dump
  rw [← cli_prog_is_expected, ← cli_source_is_expected_ir.2.2.2.2.1] at hrun
  rw [hrun]
  congr 1
  simp only [Prog.formattedVia, lookup_formatted.2.2.2, runFormatted_logs]
  rw [mapGen_ok _ (fun l => formatLog { c with on := true } t l.1 l.2)]
  · simp [logMethods]
  · intro l
    simp only [logMethods, if_true, plainObj, ctxOf_objWith]
    exact format_log_ir_eq_model _ _ t qe {} l.1 l.2

private instance resultDecEq : DecidableEq Result := inferInstance

-- non-vacuity: generated command + generated map + generated builder on concrete options and items
example : run Gen.PyIRCli.prog (Gen.PyIRCli.prog.formattedVia
      (traceMethods Colour.termcolor irTabs Gen.Enums.DgbFuncQual fun _ (d : List TraceRec) => (d, some .eof))
      (fun _ => Except.error (ε := PyErr) (α := Unit) .unmodelled) (fun _ _ _ => .error .unmodelled))
    Gen.PyIRCli.traces ({ showTid := some true, color := some false, count := some 1 } : Given).args
    [⟨5, 7, "getpid(), pid: 42"⟩, ⟨6, 7, "x"⟩]
    = .ran ["5 " ++ "          7 " ++ "launchd(42)" ++ spaces 23 ++ "getpid(), pid: 42"] none := by decide +kernel
example : run Gen.PyIRCli.prog (Gen.PyIRCli.prog.formattedVia
      (logMethods Colour.termcolor irTabs Gen.Enums.DgbFuncQual fun _ (d : List (String × LogRec)) => (d, none))
      (fun _ => Except.error (ε := PyErr) (α := Unit) .unmodelled) (fun _ _ _ => .error .unmodelled))
    Gen.PyIRCli.logs ({} : Given).args [("2024-01-01 00:00:00.000001", ⟨7, "launchd", 42, "hi"⟩)]
    = .ran ["\x1b[32m2024-01-01 00:00:00.000001 \x1b[0m \x1b[35mlaunchd(42)" ++ spaces 16 ++ "\x1b[0m \x1b[97mhi\x1b[0m"] none := by
  decide +kernel

end KdVerif.C14
