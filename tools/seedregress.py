#!/venv/bin/python
"""tools/seedregress.py <report.json> <seed id prefix> … — regression over stored seeded changes: for each seed run the check
of the property it breaks (only that one) against the change in a scratch worktree (tools/seedtest.py, no demonstration, no
test-suite confirmation: both were done when the seed was stored) and append {id, property, rc, lines, concrete} to the report.
The seeds' meta.json files are left alone.  A seed counts as caught when the check ends rc 1 with a VIOLATION line; `concrete`
says that at least one VIOLATION line does not end in no-failing-input-found."""
import glob
import json
import os
import subprocess
import sys
import time

root = os.path.dirname(os.path.dirname(os.path.abspath(__file__)))
report = sys.argv[1]
for sid in sys.argv[2:]:
    ds = glob.glob(os.path.join(root, 'seeded', sid + '-*'))
    if not ds:
        continue
    d = ds[0]
    skip = os.environ.get('SEEDREGRESS_SKIP_GLOB')          # other workers' reports: a seed already done there is skipped
    if skip:
        done = set()
        for f in glob.glob(skip):
            try:
                done |= {r['id'] for r in json.load(open(f))}
            except Exception:       # noqa: BLE001
                pass
        if os.path.basename(d) in done:
            continue
    m = json.load(open(os.path.join(d, 'meta.json')))
    prop = m['breaks_property']
    t0 = time.time()
    p = subprocess.run([os.path.join(root, 'tools', 'seedtest.py'), os.path.join(d, 'patch.diff'), '-', prop],
                       capture_output=True, text=True)
    try:
        res = json.loads(p.stdout[p.stdout.index('{'):])
        chk = res.get('check_' + prop, {})
    except Exception:       # noqa: BLE001
        chk = {'rc': None, 'lines': [p.stdout[-300:], p.stderr[-300:]]}
    viol = [l for l in chk.get('lines', []) if l.startswith('VIOLATION')]
    row = {'id': os.path.basename(d), 'property': prop, 'rc': chk.get('rc'), 'lines': chk.get('lines', [])[:3],
           'caught': chk.get('rc') == 1 and bool(viol),
           'concrete': any(not l.rstrip().endswith('no-failing-input-found') for l in viol), 'wall_s': round(time.time() - t0, 1)}
    rows = json.load(open(report)) if os.path.exists(report) else []
    rows.append(row)
    json.dump(rows, open(report, 'w'), indent=1)
    print(row['id'][:40], row['rc'], 'caught' if row['caught'] else 'NOT CAUGHT', 'concrete' if row['concrete'] else 'no-input',
          row['wall_s'], flush=True)
